#!/usr/bin/env python3
"""Driver of the go.sh verification harness.

  ./check <ID> [quick|thorough]   run the check of one property
  ./check replay <file>           re-execute one persisted case
  ./check setup                   build everything once (offline)

Exit codes: 0 = the property held on everything explored, 1 = violation
(with a line "VIOLATION property=<ID> replay=<path>"), 2 = the check itself
could not run to completion (build failure, time-out, worker death that
cannot be attributed to a case).  A time budget never produces exit 1.
"""
import json
import os
import shutil
import subprocess
import sys
import time

ROOT = os.path.dirname(os.path.abspath(__file__))
# Development-time overrides (seeded-mutation evaluation runs the same driver
# against a scratch copy of the harness whose go.mod points at a mutated copy
# of the repository, without touching /repo, /verif/out or /verif/evidence).
HARNESS = os.environ.get("VERIF_HARNESS_DIR") or os.path.join(ROOT, "harness")
OUT = os.environ.get("VERIF_OUT_DIR") or os.path.join(ROOT, "out")
EVIDENCE = os.environ.get("VERIF_EVIDENCE_DIR") or os.path.join(ROOT, "evidence")
BIN = os.path.join(OUT, "bin")
LEDGER = os.path.join(ROOT, "known_findings.json")

GOENV = dict(os.environ)
GOENV.update({
    "GOFLAGS": "-mod=mod",
    "GOPROXY": "off",
    "GOSUMDB": "off",
    "GOTOOLCHAIN": "local",
    "CGO_ENABLED": GOENV.get("CGO_ENABLED", "1"),
})

NCPU = os.cpu_count() or 4

# Per-property configuration: the test that decides it, how many processes,
# wall-clock caps (a cap that is hit means "inconclusive", exit 2), the
# claimed level and the stated rule for non-trivial cases.
PROPS = json.load(open(os.path.join(ROOT, "props.json")))


def log(*a):
    print(*a, flush=True)


def run(cmd, **kw):
    return subprocess.run(cmd, **kw)


def build(race=False):
    os.makedirs(BIN, exist_ok=True)
    name = "props.race.test" if race else "props.test"
    cmd = ["go", "test", "-c", "-tags", "verif", "-o", os.path.join(BIN, name)]
    if race:
        cmd.append("-race")
    cmd.append("./props")
    t0 = time.time()
    p = run(cmd, cwd=HARNESS, env=GOENV, stdout=subprocess.PIPE, stderr=subprocess.STDOUT, text=True)
    if p.returncode != 0:
        log(p.stdout[-4000:])
        log("BUILD-FAILED: %s (the harness does not compile against /repo's working tree)" % " ".join(cmd))
        sys.exit(2)
    for tool in ("merge", "worker"):
        if not os.path.isdir(os.path.join(HARNESS, "cmd", tool)):
            continue
        p = run(["go", "build", "-tags", "verif", "-o", os.path.join(BIN, tool), "./cmd/" + tool],
                cwd=HARNESS, env=GOENV, stdout=subprocess.PIPE, stderr=subprocess.STDOUT, text=True)
        if p.returncode != 0:
            log(p.stdout[-4000:])
            log("BUILD-FAILED: cmd/%s" % tool)
            sys.exit(2)
    return os.path.join(BIN, name), time.time() - t0


def test_env(prop, tier, seed, shard, nshard, outdir, exclude=()):
    e = dict(GOENV)
    e.update({
        "VERIF_TIER": tier,
        "VERIF_SEED": str(seed),
        "VERIF_SHARD": str(shard),
        "VERIF_NSHARD": str(nshard),
        "VERIF_OUT": outdir,
        "VERIF_EXCLUDE": ",".join(sorted(exclude)),
        "VERIF_BIN": BIN,
        "VERIF_ROOT": ROOT,
    })
    e.pop("VERIF_REPLAY", None)
    return e


def replay_files(binary, files, outdir, exclude=()):
    """Replays files through TestReplay. Returns {path: (status, detail)}."""
    res = {}
    if not files:
        return res
    e = test_env("", "quick", 1, 0, 1, outdir, exclude)
    e["VERIF_REPLAY"] = os.pathsep.join(files)
    try:
        p = run([binary, "-test.run", "^TestReplay$", "-test.timeout", "300s"], cwd=outdir, env=e,
                stdout=subprocess.PIPE, stderr=subprocess.STDOUT, text=True, timeout=400)
        out = p.stdout
    except subprocess.TimeoutExpired as ex:
        out = (ex.stdout or b"").decode("utf-8", "replace") if isinstance(ex.stdout, bytes) else (ex.stdout or "")
        out += "\nTIMEOUT"
    for line in out.splitlines():
        if line.startswith("REPLAY "):
            parts = line.split(" ", 3)
            if len(parts) >= 3:
                res[parts[1]] = (parts[2], parts[3] if len(parts) > 3 else "")
    for f in files:
        if f not in res:
            # the process died while replaying: that is a failure of this case
            res[f] = ("FAIL", "process died or timed out while replaying: " + out[-300:].replace("\n", "\\n"))
            break
    for f in files:
        res.setdefault(f, ("ERROR", "not reached"))
    return res


def load_ledger():
    if not os.path.exists(LEDGER):
        return []
    return json.load(open(LEDGER)).get("findings", [])


def merge_hashes(outdir):
    files = sorted(os.path.join(d, f) for d, _, fs in os.walk(outdir) for f in fs if f.startswith("hashes-"))
    if not files:
        return 0
    p = run([os.path.join(BIN, "merge")] + files, stdout=subprocess.PIPE, text=True)
    try:
        return int(p.stdout.strip())
    except ValueError:
        return 0


def write_evidence(prop, cfg, tier, seed, outdir, wall, violations, known, regressions, extra_notes):
    ev_dir = EVIDENCE
    os.makedirs(ev_dir, exist_ok=True)
    evaluations = 0
    disjoint = 0
    classes, excluded = {}, {}
    samples, notes = [], list(extra_notes)
    exhaustive = None
    shards = 0
    stat_files = sorted(os.path.join(d, f) for d, _, fs in os.walk(outdir) for f in fs
                        if f.startswith("stats-") and f.endswith(".json"))
    for f in stat_files:
        try:
            s = json.load(open(f))
        except Exception:
            continue
        shards += 1
        evaluations += s.get("evaluations", 0)
        disjoint += s.get("nontrivial_disjoint", 0)
        for k, v in (s.get("classes") or {}).items():
            classes[k] = classes.get(k, 0) + v
        for k, v in (s.get("excluded_by_finding") or {}).items():
            excluded[k] = excluded.get(k, 0) + v
        for smp in (s.get("samples") or [])[:3]:
            if len(samples) < 12:
                samples.append(smp)
        for n in s.get("notes") or []:
            if n not in notes:
                notes.append(n)
        if s.get("exhaustive"):
            exhaustive = True if exhaustive is None else exhaustive
        else:
            exhaustive = False
    distinct = disjoint + merge_hashes(outdir)
    cov = {
        "evaluations": evaluations,
        "distinct_nontrivial": distinct,
        "rule": cfg["rule"],
        "samples": samples,
        "classes": dict(sorted(classes.items())),
        "excluded_by_finding": excluded,
        "known_findings_reported": known,
        "regression_replays": regressions,
        "shards": shards,
        "notes": notes,
    }
    if exhaustive:
        cov["exhaustive"] = True
        cov["exhaustive_scope"] = "the enumerated part named in notes; the rapid-sampled part is not exhaustive"
    ev = {
        "property_id": prop,
        "tier": tier,
        "seed": seed,
        "level": cfg["level"],
        "coverage": cov,
        "assumptions": cfg.get("assumptions", []),
        "wall_s": round(wall, 2),
        "violations": violations,
    }
    tmp = os.path.join(ev_dir, prop + ".json.tmp")
    with open(tmp, "w") as fh:
        json.dump(ev, fh, indent=1, ensure_ascii=False)
        fh.write("\n")
    os.replace(tmp, os.path.join(ev_dir, prop + ".json"))


def keep_violation(prop, src, n):
    """Copies a failure file to a stable path and returns it."""
    vdir = os.path.join(OUT, "violations")
    os.makedirs(vdir, exist_ok=True)
    dst = os.path.join(vdir, "%s-%d-%d.json" % (prop, int(time.time()), n))
    shutil.copyfile(src, dst)
    return dst


def check(prop, tier):
    if prop not in PROPS:
        log("unknown property %s" % prop)
        return 2
    cfg = PROPS[prop]
    seed = int(os.environ.get("VERIF_SEED", "1") or "1")
    if seed == 0:
        seed = 1
    t0 = time.time()
    outdir = os.path.join(OUT, prop)
    shutil.rmtree(outdir, ignore_errors=True)
    os.makedirs(outdir)
    binary, _ = build()
    violations = []
    known_reported = []
    exclude = set()
    notes = []

    # 1. ledger: known findings gate generator exclusions, fixed ones are regressions
    ledger = [f for f in load_ledger() if f.get("property") == prop]
    wit = {}
    for f in ledger:
        w = os.path.join(ROOT, f["witness"])
        if not os.path.exists(w):
            log("LEDGER-ERROR: witness %s of %s is missing" % (f["witness"], f["id"]))
            return 2
        wit[f["id"]] = w
    res = replay_files(binary, [wit[f["id"]] for f in ledger], outdir)
    for f in ledger:
        status, detail = res[wit[f["id"]]]
        if status == "ERROR":
            log("LEDGER-ERROR: %s: %s" % (f["id"], detail))
            return 2
        if f.get("status") == "known":
            if status == "FAIL":
                log("KNOWN-FINDING: property=%s %s (%s; witness %s)" % (prop, f["what"], f["id"], f["witness"]))
                known_reported.append(f["id"])
                exclude.update(f.get("excludes", []))
            else:
                notes.append("ledger entry %s no longer fails: its exclusions are off, the full domain is explored" % f["id"])
        else:  # fixed: suppresses nothing
            if status == "FAIL":
                log("REGRESSION of fixed finding %s: %s" % (f["id"], detail))
                violations.append(wit[f["id"]])

    # 2. regression tier: committed replays that are not ledger witnesses
    rdir = os.path.join(ROOT, "replays", prop)
    regs = []
    if os.path.isdir(rdir):
        regs = sorted(os.path.join(rdir, f) for f in os.listdir(rdir)
                      if f.endswith(".json") and os.path.join(rdir, f) not in wit.values())
    res = replay_files(binary, regs, outdir, exclude)
    for f in regs:
        status, detail = res[f]
        if status == "FAIL":
            log("replay %s: %s" % (f, detail))
            violations.append(f)
        elif status == "ERROR":
            log("REPLAY-ERROR: %s: %s" % (f, detail))
            return 2

    # 3. generation
    inconclusive = []
    for phase in cfg.get("phases", [{}]):
        test = phase.get("test", cfg.get("test"))
        nshard = min(phase.get("shards", cfg.get("shards", NCPU)), NCPU)
        cap = phase.get("timeout_" + tier, cfg.get("timeout_" + tier, 900 if tier == "quick" else 3600))
        pbin = binary
        if phase.get("race"):
            pbin, _ = build(race=True)
        pout = outdir
        if phase.get("name"):
            pout = os.path.join(outdir, phase["name"])
            os.makedirs(pout, exist_ok=True)
        procs = []
        for i in range(nshard):
            e = test_env(prop, tier, seed, i, nshard, pout, exclude)
            # one OS thread per shard: the shards already fill the cores, and go.sh's
            # lexer/parser hand-offs are far cheaper without cross-thread wake-ups
            e["GOMAXPROCS"] = str(phase.get("gomaxprocs", cfg.get("gomaxprocs", 1)))
            e.update(phase.get("env", {}))
            lf = open(os.path.join(pout, "log-%d.txt" % i), "w")
            p = subprocess.Popen([pbin, "-test.run", "^%s$" % test, "-test.timeout", "%ds" % (cap + 60), "-test.v=false"],
                                 cwd=pout, env=e, stdout=lf, stderr=subprocess.STDOUT)
            procs.append((i, p, lf))
        deadline = time.time() + cap
        for i, p, lf in procs:
            try:
                rc = p.wait(timeout=max(1, deadline - time.time()))
            except subprocess.TimeoutExpired:
                p.kill()
                p.wait()
                rc = None
            lf.close()
            if rc == 0:
                continue
            ff = os.path.join(pout, "fail-%d.json" % i)
            jf = os.path.join(pout, "inflight-%d.json" % i)
            lg = open(os.path.join(pout, "log-%d.txt" % i), errors="replace").read()
            if os.path.exists(ff):
                violations.append(keep_violation(prop, ff, i))
                log(lg[-1500:])
            elif rc is not None and os.path.exists(jf) and os.path.getsize(jf) > 2:
                # the process died (a goroutine of go.sh panicked) while this case ran
                violations.append(keep_violation(prop, jf, i))
                log(lg[-2500:])
            elif rc is None:
                inconclusive.append("shard %d of %s exceeded %ds" % (i, test, cap))
            else:
                log(lg[-3000:])
                inconclusive.append("shard %d of %s exited with %s without naming a case" % (i, test, rc))

    wall = time.time() - t0
    write_evidence(prop, cfg, tier, seed, outdir, wall, len(violations), known_reported, len(regs), notes)
    for v in violations:
        log("VIOLATION property=%s replay=%s" % (prop, v))
    if violations:
        return 1
    if inconclusive:
        for m in inconclusive:
            log("INCONCLUSIVE: " + m)
        return 2
    log("OK property=%s tier=%s seed=%d wall=%.1fs evidence=evidence/%s.json" % (prop, tier, seed, wall, prop))
    return 0


def replay(path):
    binary, _ = build()
    outdir = os.path.join(OUT, "replay")
    os.makedirs(outdir, exist_ok=True)
    path = os.path.abspath(path)
    res = replay_files(binary, [path], outdir)
    status, detail = res[path]
    try:
        prop = json.load(open(path)).get("property", "?")
    except Exception:
        prop = "?"
    if status == "PASS":
        log("PASS %s" % path)
        return 0
    if status == "FAIL":
        log(detail)
        log("VIOLATION property=%s replay=%s" % (prop, path))
        return 1
    log("ERROR %s" % detail)
    return 2


def main(argv):
    if len(argv) < 2:
        log(__doc__)
        return 2
    if argv[1] == "setup":
        build()
        if any(ph.get("race") for c in PROPS.values() for ph in c.get("phases", [])):
            build(race=True)
        log("setup done")
        return 0
    if argv[1] == "replay":
        return replay(argv[2])
    tier = argv[2] if len(argv) > 2 else os.environ.get("VERIF_TIER", "quick")
    if tier not in ("quick", "thorough"):
        tier = "quick"
    return check(argv[1], tier)


if __name__ == "__main__":
    sys.exit(main(sys.argv))
