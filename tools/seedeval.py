#!/usr/bin/env python3
"""Development-time evaluation of seeded mutations (never part of a check).

usage: seedeval.py <mutation dir with patch<k>.diff demo<k>_test.go notes<k>.md> <ID> <k> [check ids...]

1. verifies the mutation in a scratch worktree of /repo's HEAD: the patch
   applies, the repository's own suite passes with it, the demonstration test
   fails with it and passes without it;
2. runs the given checks (default: the property's own) against the mutated
   copy through a scratch copy of the harness, so that /repo, /verif/out and
   /verif/evidence stay untouched;
3. writes /verif/seeded/<ID>-<k>/{patch.diff,demo_test.go,notes.md,meta.json}.
"""
import json, os, re, shutil, subprocess, sys, time

src, pid, k = sys.argv[1], sys.argv[2], sys.argv[3]
checks = sys.argv[4:] or [pid]
ENV = dict(os.environ, GOFLAGS="-mod=mod", GOPROXY="off", GOSUMDB="off", GOTOOLCHAIN="local")
outk = str(int(k) + int(os.environ.get("SEEDEVAL_OFFSET", "0")))  # round 2 files patch1..3 are stored as <ID>-4..6
work = "/tmp/seedeval/%s-%s" % (pid, outk)
shutil.rmtree(work, ignore_errors=True)
os.makedirs(work)
repo = os.path.join(work, "repo")

def sh(cmd, cwd=None, timeout=1800):
    p = subprocess.run(cmd, shell=True, cwd=cwd, env=ENV, stdout=subprocess.PIPE, stderr=subprocess.STDOUT, text=True, timeout=timeout)
    return p.returncode, p.stdout

patch = os.path.join(src, "patch%s.diff" % k)
demo = os.path.join(src, "demo%s_test.go" % k)
notes = os.path.join(src, "notes%s.md" % k)
meta = {"property": pid, "k": int(outk), "base_commit": sh("git -C /repo rev-parse --short HEAD")[1].strip(), "ran": []}
sh("git -C /repo worktree prune")
rc, out = sh("git -C /repo worktree add -f --detach %s HEAD" % repo)
assert rc == 0, out
try:
    rc, out = sh("git apply %s" % patch, cwd=repo)
    if rc != 0:
        # context has shifted: try a three-way merge and keep the result as the patch
        rc, out = sh("git apply --3way %s && git reset -q && git diff > %s.rebased" % (patch, patch), cwd=repo)
        if rc == 0 and os.path.getsize(patch + ".rebased") > 0:
            shutil.copyfile(patch + ".rebased", patch)
            meta["rebased"] = True
        else:
            sh("git checkout -q -- . ; git clean -fdq", cwd=repo)
            rc = 1
    meta["patch_applies"] = rc == 0
    if rc != 0:
        meta["error"] = out[-500:]
        raise SystemExit
    rc, out = sh("go build ./... && go test -count=1 ./...", cwd=repo)
    meta["suite_passes_with_patch"] = rc == 0
    meta["ran"].append("go test -count=1 ./...  (with patch): rc=%d" % rc)
    pkg = re.search(r"^package\s+(\w+)", open(demo).read(), re.M).group(1)
    d = pkg[:-5] if pkg.endswith("_test") else pkg
    if not os.path.isdir(os.path.join(repo, d)):
        d = {"sh": "."}.get(d, d)
    meta["demo_dir"] = d
    dst = os.path.join(repo, d, "zz_demo%s_test.go" % k)
    shutil.copyfile(demo, dst)
    rc, out = sh("go test -count=1 -run 'Demo|demo|Test' -timeout 120s ./%s/ 2>&1 | tail -15" % d, cwd=repo, timeout=400)
    rc, out = sh("go test -count=1 -timeout 120s ./%s/" % d, cwd=repo, timeout=400)
    meta["demo_fails_with_patch"] = rc != 0
    meta["ran"].append("go test ./%s/ with demo (with patch): rc=%d" % (d, rc))
    os.remove(dst)
    sh("git apply -R %s" % patch, cwd=repo)
    shutil.copyfile(demo, dst)
    rc, out = sh("go test -count=1 -timeout 120s ./%s/" % d, cwd=repo, timeout=400)
    meta["demo_passes_without_patch"] = rc == 0
    meta["ran"].append("go test ./%s/ with demo (pristine): rc=%d" % (d, rc))
    os.remove(dst)
    meta["confirmed"] = bool(meta["suite_passes_with_patch"] and meta["demo_fails_with_patch"] and meta["demo_passes_without_patch"])
    # detection
    sh("git apply %s" % patch, cwd=repo)
    harness = os.path.join(work, "harness")
    shutil.copytree("/verif/harness", harness)
    gm = open(os.path.join(harness, "go.mod")).read().replace("=> /repo", "=> " + repo)
    open(os.path.join(harness, "go.mod"), "w").write(gm)
    env2 = dict(ENV, VERIF_HARNESS_DIR=harness, VERIF_OUT_DIR=os.path.join(work, "out"), VERIF_EVIDENCE_DIR=os.path.join(work, "evidence"))
    meta["detection"] = {}
    for c in checks:
        t0 = time.time()
        p = subprocess.run(["python3", "/verif/driver.py", c, "quick"], cwd="/verif", env=env2, stdout=subprocess.PIPE, stderr=subprocess.STDOUT, text=True, timeout=3600)
        viol = [l for l in p.stdout.splitlines() if l.startswith("VIOLATION")]
        first = ""
        for l in p.stdout.splitlines():
            if ("C%s/" % c[1:]) in l or "REGRESSION" in l or "replay " in l:
                first = l.strip()[:300]
                break
        meta["detection"][c] = {"exit": p.returncode, "violations": len(viol), "wall_s": round(time.time() - t0, 1), "first": first}
        meta["ran"].append("./check %s quick (against the mutated copy): exit %d, %d VIOLATION lines" % (c, p.returncode, len(viol)))
finally:
    sh("git -C /repo worktree remove --force %s" % repo)
    shutil.rmtree(work, ignore_errors=True)
    out = "/verif/seeded/%s-%s" % (pid, outk)
    os.makedirs(out, exist_ok=True)
    for a, b in ((patch, "patch.diff"), (demo, "demo_test.go"), (notes, "notes.md")):
        if os.path.exists(a):
            shutil.copyfile(a, os.path.join(out, b))
    prev = {}
    mp = os.path.join(out, "meta.json")
    if os.path.exists(mp):
        prev = json.load(open(mp))
        if not meta.get("patch_applies") and prev.get("confirmed"):
            # the tree has moved on under the patch (later fix commits touch the
            # same lines): the earlier evaluation, against its own base, stands
            prev["applies_to_head"] = {"head": meta["base_commit"], "applies": False}
            meta = prev
        else:
            det = prev.get("detection", {})
            det.update(meta.get("detection", {}))
            meta["detection"] = det
            meta["applies_to_head"] = {"head": meta["base_commit"], "applies": True}
    json.dump(meta, open(mp, "w"), indent=1)
    stale = " [PATCH DOES NOT APPLY TO HEAD - earlier evaluation kept]" if not meta.get("applies_to_head", {}).get("applies", True) else ""
    print(pid, outk, ("confirmed" if meta.get("confirmed") else "NOT CONFIRMED") + stale, json.dumps(meta.get("detection", {})))
