#!/usr/bin/env python3
"""Re-evaluates kept seeded changes against /repo's current HEAD (development-time tool).
usage: seedrerun.py [<ID>-<k> ...]   (default: all)
For every seeded/<ID>-<k>/ the patch is applied to a scratch worktree of HEAD (three-way if the
context has shifted), confirmed again (suite passes, demonstration fails with it and passes without
it) and the checks that caught it before (or the property's own) are run against the mutated copy.
Where the patch no longer applies the earlier evaluation against its own base commit is kept."""
import glob, json, os, shutil, subprocess, sys, tempfile
ROOT = os.path.dirname(os.path.dirname(os.path.abspath(__file__)))
names = sys.argv[1:] or sorted(os.path.basename(d) for d in glob.glob(os.path.join(ROOT, "seeded", "C*-*")))
for nm in names:
    d = os.path.join(ROOT, "seeded", nm)
    pid, k = nm.split("-")
    meta = json.load(open(os.path.join(d, "meta.json")))
    det = meta.get("detection", {})
    checks = [c for c, v in det.items() if v.get("exit") == 1 and v.get("violations", 0) > 0] or [pid]
    if os.environ.get("SEEDRERUN_FAST"):
        # one check only: the fastest of those that caught it (C06 and C10 take minutes)
        slow = {"C06": 3, "C10": 2}
        checks = sorted(checks, key=lambda c: (slow.get(c, 0), c != pid))[:1]
    tmp = tempfile.mkdtemp(prefix="seedrerun-")
    for a, b in (("patch.diff", "patch1.diff"), ("demo_test.go", "demo1_test.go"), ("notes.md", "notes1.md")):
        if os.path.exists(os.path.join(d, a)):
            shutil.copyfile(os.path.join(d, a), os.path.join(tmp, b))
    env = dict(os.environ, SEEDEVAL_OFFSET=str(int(k) - 1))
    p = subprocess.run(["python3", os.path.join(ROOT, "tools", "seedeval.py"), tmp, pid, "1"] + checks[:2], env=env, stdout=subprocess.PIPE, stderr=subprocess.STDOUT, text=True)
    print(p.stdout.strip().splitlines()[-1][:300] if p.stdout.strip() else "(no output)", flush=True)
    shutil.rmtree(tmp, ignore_errors=True)
