#!/usr/bin/env python3
"""Regenerates MANIFEST.json from props.json (claimed checks) and
not_applicable.json (properties not claimed, with reasons)."""
import json, os, subprocess
ROOT = os.path.dirname(os.path.dirname(os.path.abspath(__file__)))
props = json.load(open(os.path.join(ROOT, "props.json")))
na = json.load(open(os.path.join(ROOT, "not_applicable.json")))
all_ids = [json.loads(l)["id"] for l in open(os.path.join(ROOT, "properties.jsonl"))]
hooks = json.load(open(os.path.join(ROOT, "hooks.json")))
checks = []
for pid in all_ids:
    if pid not in props:
        continue
    c = props[pid]
    checks.append({
        "property_id": pid,
        "quick_cmd": "./check %s quick" % pid,
        "thorough_cmd": "./check %s thorough" % pid,
        "evidence_file": "/verif/evidence/%s.json" % pid,
        "replay_cmd_template": "./check replay {path}",
        "engine": c.get("engine", "rapid+enumeration"),
        "level_claimed": {"category": c["level"], "text": c["level_text"], "design_ref": "DESIGN.md section 3, " + pid},
        "level_note": c["level_note"],
        "technique": c["technique"],
    })
man = {
    "version": 1,
    "setup_cmd": "./check setup",
    "hooks": hooks,
    "engines": [
        {"name": "rapid+enumeration", "path": "harness/props", "serves_properties": [p for p in all_ids if p in props],
         "kind_free_text": "Go test binary built from /repo's working tree: exhaustive enumerations (plain loops) and pgregory.net/rapid v1.3.0 properties against independent reference models (harness/ref), metamorphic relations and round trips; failures are shrunk by rapid and persisted as replay files"},
    ],
    "checks": checks,
    "not_applicable": [{"property_id": p, "reason": na[p]} for p in all_ids if p not in props],
    "notes": "Every check: ./check <ID> <tier>; exit 0/1/2 = held / violation / inconclusive. known_findings.json is the ledger of fixed and known findings (never written at run time).",
}
for p in all_ids:
    assert (p in props) != (p in na), p
json.dump(man, open(os.path.join(ROOT, "MANIFEST.json"), "w"), indent=1)
print("MANIFEST.json: %d checks, %d not applicable" % (len(checks), len(man["not_applicable"])))
