#!/usr/bin/env python3
"""Adds an entry to known_findings.json together with its witness replay file.
usage: ledger.py <ID> <property> <fixed|known> <check> <name> '<case json>' '<what>' [commit] [exclude,exclude]
Development-time tool only; checks never write the ledger."""
import json, os, sys
ROOT = os.path.dirname(os.path.dirname(os.path.abspath(__file__)))
fid, prop, status, check, name, case, what = sys.argv[1:8]
commit = sys.argv[8] if len(sys.argv) > 8 else ""
excl = [x for x in (sys.argv[9].split(",") if len(sys.argv) > 9 else []) if x]
path = os.path.join(ROOT, "known_findings.json")
led = json.load(open(path)) if os.path.exists(path) else {"findings": []}
rel = "replays/%s/%s.json" % (prop, name)
os.makedirs(os.path.join(ROOT, "replays", prop), exist_ok=True)
json.dump({"property": prop, "check": check, "case": json.loads(case), "message": what}, open(os.path.join(ROOT, rel), "w"), indent=1, ensure_ascii=False)
led["findings"] = [f for f in led["findings"] if f["id"] != fid]
e = {"id": fid, "property": prop, "status": status, "what": what, "witness": rel}
if status == "fixed":
    e["fix_commit"] = commit
    e["line"] = "fixed: property=%s %s %s" % (prop, commit, what)
else:
    e["excludes"] = excl
led["findings"].append(e)
led["findings"].sort(key=lambda f: (f["property"], f["id"]))
json.dump(led, open(path, "w"), indent=1, ensure_ascii=False)
print("ledger:", fid, status, rel)
