#!/usr/bin/env python3
"""Prints the JSON of a C02 case for a source text: the skeleton is taken from
go.sh's own parse of an EQUIVALENT canonical source (second argument, default:
the source itself) on the current tree and must be reviewed by eye."""
import json, subprocess, sys
src = sys.argv[1].encode().decode('unicode_escape').encode('latin1').decode('utf8')
canon = sys.argv[2].encode().decode('unicode_escape').encode('latin1').decode('utf8') if len(sys.argv) > 2 and sys.argv[2] else src
comments = sys.argv[3:] 
out = subprocess.run(["/verif/out/bin/skel", canon], stdout=subprocess.PIPE, text=True).stdout.splitlines()
print(json.dumps({"src": src, "want": out[0], "comments": ['#' + json.dumps(c, ensure_ascii=False) for c in comments]}, ensure_ascii=False))
