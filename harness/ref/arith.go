package ref

import (
	"strconv"
	"strings"
)

// ---- arithmetic expressions (C semantics on int64, as restated by C11) ------

// ANode is a node of an arithmetic expression tree.
type ANode struct {
	Kind string `json:"k"`            // num var un bin cond asg preinc predec postinc postdec
	Op   string `json:"op,omitempty"` // operator of un / bin / asg
	S    string `json:"s,omitempty"`  // constant text, variable name, or the (non-)lvalue text
	A    *ANode `json:"a,omitempty"`
	B    *ANode `json:"b,omitempty"`
	C    *ANode `json:"c,omitempty"`
}

var binPrec = map[string]int{"||": 3, "&&": 4, "|": 5, "^": 6, "&": 7, "==": 8, "!=": 8, "<": 9, ">": 9, "<=": 9, ">=": 9, "<<": 10, ">>": 10, "+": 11, "-": 11, "*": 12, "/": 12, "%": 12}

func (n *ANode) prec() int {
	switch n.Kind {
	case "num", "var":
		return 15
	case "postinc", "postdec":
		return 14
	case "un", "preinc", "predec":
		return 13
	case "bin":
		return binPrec[n.Op]
	case "cond":
		return 2
	case "asg":
		return 1
	}
	return 0
}

// Tokens renders the tree with only the parentheses C requires. extra is
// asked, for every subtree, whether redundant parentheses are to be added.
func (n *ANode) Tokens(extra func() bool) []string {
	var out []string
	// target renders the operand of an assignment or of ++ / --: in C a
	// parenthesised variable designates the variable
	target := func(s string) []string {
		if extra != nil && isIdent(s) && extra() && extra() {
			if extra() {
				return []string{"(", "(", s, ")", ")"}
			}
			return []string{"(", s, ")"}
		}
		return []string{s}
	}
	var rec func(n *ANode, min int)
	rec = func(n *ANode, min int) {
		paren := n.prec() < min || (extra != nil && n.Kind != "num" && n.Kind != "var" && extra())
		if (n.Kind == "num" || n.Kind == "var") && extra != nil && n.prec() >= min && extra() && extra() {
			paren = true
		}
		if paren {
			out = append(out, "(")
		}
		switch n.Kind {
		case "num", "var":
			out = append(out, n.S)
		case "un":
			out = append(out, n.Op)
			rec(n.A, 13)
		case "preinc":
			out = append(append(out, "++"), target(n.S)...)
		case "predec":
			out = append(append(out, "--"), target(n.S)...)
		case "postinc":
			out = append(append(out, target(n.S)...), "++")
		case "postdec":
			out = append(append(out, target(n.S)...), "--")
		case "bin":
			p := binPrec[n.Op]
			rec(n.A, p)
			out = append(out, n.Op)
			rec(n.B, p+1)
		case "cond":
			rec(n.A, 3)
			out = append(out, "?")
			rec(n.B, 1)
			out = append(out, ":")
			rec(n.C, 2)
		case "asg":
			out = append(append(out, target(n.S)...), n.Op)
			rec(n.A, 1)
		}
		if paren {
			out = append(out, ")")
		}
	}
	rec(n, 0)
	return out
}

func isIdent(s string) bool {
	for i := 0; i < len(s); i++ {
		c := s[i]
		if !(c == '_' || c >= 'a' && c <= 'z' || c >= 'A' && c <= 'Z' || i > 0 && c >= '0' && c <= '9') {
			return false
		}
	}
	return s != ""
}

var arithOps = []string{"<<=", ">>=", "++", "--", "<<", ">>", "<=", ">=", "==", "!=", "&&", "||", "*=", "/=", "%=", "+=", "-=", "&=", "^=", "|=",
	"+", "-", "~", "!", "*", "/", "%", "<", ">", "&", "^", "|", "?", ":", "=", "(", ")"}

// ArithLex splits s into tokens by maximal munch (numbers, names, operators).
func ArithLex(s string) []string {
	var out []string
	for i := 0; i < len(s); {
		c := s[i]
		switch {
		case c == ' ' || c == '\t' || c == '\n':
			i++
		case c >= '0' && c <= '9' || c == '_' || c >= 'a' && c <= 'z' || c >= 'A' && c <= 'Z' || c == '$' || c == '{' || c == '}':
			j := i
			for j < len(s) && (s[j] >= '0' && s[j] <= '9' || s[j] == '_' || s[j] >= 'a' && s[j] <= 'z' || s[j] >= 'A' && s[j] <= 'Z' || s[j] == '$' || s[j] == '{' || s[j] == '}') {
				j++
			}
			out = append(out, s[i:j])
			i = j
		default:
			m := ""
			for _, op := range arithOps {
				if strings.HasPrefix(s[i:], op) {
					m = op
					break
				}
			}
			if m == "" {
				m = s[i : i+1]
			}
			out = append(out, m)
			i += len(m)
		}
	}
	return out
}

// Fuses reports whether writing a and b without a blank between them would
// be read as something other than the two tokens a, b.
func Fuses(a, b string) bool {
	t := ArithLex(a + b)
	return len(t) != 2 || t[0] != a || t[1] != b
}

// Join writes the tokens with the given gaps ("" or blanks); a blank is
// forced where two tokens would fuse.
func Join(toks []string, gap func() string) string {
	var b strings.Builder
	for i, t := range toks {
		if i > 0 {
			g := ""
			if gap != nil {
				g = gap()
			}
			if g == "" && Fuses(toks[i-1], t) {
				g = " "
			}
			b.WriteString(g)
		}
		b.WriteString(t)
	}
	return b.String()
}

// FusesWithoutBlanks reports whether dropping all blanks between the tokens
// changes how the expression is read (go.sh finding #23).
func FusesWithoutBlanks(toks []string) bool {
	for i := 1; i < len(toks); i++ {
		if Fuses(toks[i-1], toks[i]) {
			return true
		}
	}
	return false
}

// AFault is an evaluation fault.
type AFault struct {
	Msg   string
	Panic bool // reported by go.sh through a recovered run-time panic
}

// ErrUndefined marks results C leaves undefined (shift count > 63,
// MinInt64 / -1).
var ErrUndefined = &AFault{Msg: "undefined in C"}

// AEval evaluates trees over a variable store.
type AEval struct {
	Store map[string]string
	// LazySensitive is set when an operand C does not evaluate would have
	// faulted or changed the store had it been evaluated (go.sh finding #20).
	LazySensitive bool
	// SkippedBadConst is set when an operand C does not evaluate contains a
	// malformed constant (a lexical matter on which shells disagree).
	SkippedBadConst bool
	// Faults counts the faults met (evaluation stops at the first one).
	Faults int
	// FaultInsideAsgRHS is set when the first fault arose while the right-hand
	// side of an assignment was being computed (and is not simply that
	// right-hand side being a non-numeric variable): go.sh's known
	// "assignment after a fault" finding concerns exactly these.
	FaultInsideAsgRHS bool
	asgDepth          int
	directRHS         *ANode
	// RTL evaluates the operands of unsequenced operators right to left. C
	// leaves the order open; a tree whose outcome depends on it is not
	// "defined by C" and is left out of the comparison.
	RTL bool
}

// ParseNumber converts the text of a constant or of a variable value.
// Accepted: optional sign, decimal, 0-octal, 0x-hexadecimal.
func ParseNumber(s string, sign bool) (int64, bool) {
	neg := false
	if sign && s != "" && (s[0] == '-' || s[0] == '+') {
		neg = s[0] == '-'
		s = s[1:]
	}
	if s == "" {
		return 0, false
	}
	base := uint64(10)
	switch {
	case len(s) > 1 && (s[:2] == "0x" || s[:2] == "0X"):
		base, s = 16, s[2:]
	case len(s) > 1 && s[0] == '0':
		base, s = 8, s[1:]
	}
	if s == "" {
		return 0, false
	}
	var v uint64
	for _, c := range []byte(s) {
		var d uint64
		switch {
		case c >= '0' && c <= '9':
			d = uint64(c - '0')
		case c >= 'a' && c <= 'f':
			d = uint64(c-'a') + 10
		case c >= 'A' && c <= 'F':
			d = uint64(c-'A') + 10
		default:
			return 0, false
		}
		if d >= base {
			return 0, false
		}
		if v > (1<<64-1-d)/base {
			return 0, false
		}
		v = v*base + d
	}
	if neg {
		if v > 1<<63 {
			return 0, false
		}
		return -int64(v), true
	}
	if v > 1<<63-1 {
		return 0, false
	}
	return int64(v), true
}

// fault counts a fault and notes whether it arose inside the right-hand side
// of an assignment.
func (e *AEval) fault(n *ANode) {
	e.Faults++
	if e.Faults == 1 && e.asgDepth > 0 {
		e.FaultInsideAsgRHS = true
	}
}

func (e *AEval) load(name string) (int64, *AFault) {
	v, ok := e.Store[name]
	if !ok || v == "" {
		return 0, nil
	}
	n, ok := ParseNumber(v, true)
	if !ok {
		e.fault(nil)
		return 0, &AFault{Msg: "non-numeric value of " + name}
	}
	return n, nil
}

func (e *AEval) binop(op string, l, r int64) (int64, *AFault) {
	switch op {
	case "*":
		return l * r, nil
	case "/", "%":
		if r == 0 {
			e.Faults++ // a run-time panic ends the evaluation at once: nothing is assigned afterwards
			return 0, &AFault{Msg: "division by zero", Panic: true}
		}
		if l == -1<<63 && r == -1 {
			return 0, ErrUndefined
		}
		if op == "/" {
			return l / r, nil
		}
		return l % r, nil
	case "+":
		return l + r, nil
	case "-":
		return l - r, nil
	case "<<", ">>":
		if r < 0 {
			e.Faults++
			return 0, &AFault{Msg: "negative shift count", Panic: true}
		}
		if r > 63 {
			return 0, ErrUndefined
		}
		if op == "<<" {
			return l << uint(r), nil
		}
		return l >> uint(r), nil
	case "&":
		return l & r, nil
	case "^":
		return l ^ r, nil
	case "|":
		return l | r, nil
	}
	b := false
	switch op {
	case "<":
		b = l < r
	case ">":
		b = l > r
	case "<=":
		b = l <= r
	case ">=":
		b = l >= r
	case "==":
		b = l == r
	case "!=":
		b = l != r
	}
	if b {
		return 1, nil
	}
	return 0, nil
}

// skip notes whether evaluating the skipped operand would have mattered.
func (e *AEval) skip(n *ANode) {
	if n.hasBadConst() {
		e.SkippedBadConst = true
	}
	c := &AEval{Store: map[string]string{}, RTL: e.RTL}
	for k, v := range e.Store {
		c.Store[k] = v
	}
	_, f := c.Eval(n)
	if c.SkippedBadConst {
		e.SkippedBadConst = true
	}
	if f != nil || c.LazySensitive {
		e.LazySensitive = true
		return
	}
	if len(c.Store) != len(e.Store) {
		e.LazySensitive = true
		return
	}
	for k, v := range c.Store {
		if w, ok := e.Store[k]; !ok || w != v {
			e.LazySensitive = true
			return
		}
	}
}

func isLValue(s string) bool {
	if s == "" {
		return false
	}
	for i, c := range s {
		if !(c == '_' || c >= 'a' && c <= 'z' || c >= 'A' && c <= 'Z' || i > 0 && c >= '0' && c <= '9') {
			return false
		}
	}
	return true
}

// Eval evaluates the tree; lazy && || ?:, first fault wins, nothing is
// assigned after a fault.
func (e *AEval) Eval(n *ANode) (int64, *AFault) {
	switch n.Kind {
	case "num":
		v, ok := ParseNumber(n.S, false)
		if !ok {
			e.fault(n)
			return 0, &AFault{Msg: "malformed constant " + n.S}
		}
		return v, nil
	case "var":
		if n == e.directRHS {
			// a non-numeric variable that is the whole right-hand side: go.sh
			// does not assign then
			e.asgDepth--
			v, f := e.load(n.S)
			e.asgDepth++
			return v, f
		}
		return e.load(n.S)
	case "un":
		v, f := e.Eval(n.A)
		if f != nil {
			return 0, f
		}
		switch n.Op {
		case "+":
			return v, nil
		case "-":
			return -v, nil
		case "~":
			return ^v, nil
		default:
			if v == 0 {
				return 1, nil
			}
			return 0, nil
		}
	case "preinc", "predec", "postinc", "postdec":
		if !isLValue(n.S) {
			e.fault(n)
			return 0, &AFault{Msg: "not an lvalue"}
		}
		v, f := e.load(n.S)
		if f != nil {
			return 0, f
		}
		d := int64(1)
		if strings.HasSuffix(n.Kind, "dec") {
			d = -1
		}
		e.Store[n.S] = strconv.FormatInt(v+d, 10)
		if strings.HasPrefix(n.Kind, "pre") {
			return v + d, nil
		}
		return v, nil
	case "bin":
		if n.Op == "&&" || n.Op == "||" {
			l, f := e.Eval(n.A)
			if f != nil {
				return 0, f
			}
			if n.Op == "&&" && l == 0 {
				e.skip(n.B)
				return 0, nil
			}
			if n.Op == "||" && l != 0 {
				e.skip(n.B)
				return 1, nil
			}
			r, f := e.Eval(n.B)
			if f != nil {
				return 0, f
			}
			if r != 0 {
				return 1, nil
			}
			return 0, nil
		}
		var l, r int64
		var f *AFault
		if e.RTL {
			if r, f = e.Eval(n.B); f != nil {
				return 0, f
			}
			if l, f = e.Eval(n.A); f != nil {
				return 0, f
			}
		} else {
			if l, f = e.Eval(n.A); f != nil {
				return 0, f
			}
			if r, f = e.Eval(n.B); f != nil {
				return 0, f
			}
		}
		return e.binop(n.Op, l, r)
	case "cond":
		c, f := e.Eval(n.A)
		if f != nil {
			return 0, f
		}
		if c != 0 {
			e.skip(n.C)
			return e.Eval(n.B)
		}
		e.skip(n.B)
		return e.Eval(n.C)
	case "asg":
		if !isLValue(n.S) {
			if e.RTL {
				// whether the right-hand side of an assignment to a non-lvalue is
				// evaluated before the fault is noticed is not defined
				if _, f := e.Eval(n.A); f != nil {
					return 0, f
				}
			}
			e.fault(n)
			return 0, &AFault{Msg: "not an lvalue"}
		}
		if e.RTL && n.Op != "=" {
			if _, f := e.load(n.S); f != nil {
				return 0, f
			}
		}
		saved := e.directRHS
		e.directRHS = n.A
		e.asgDepth++
		r, f := e.Eval(n.A)
		e.asgDepth--
		e.directRHS = saved
		if f != nil {
			return 0, f
		}
		v := r
		if n.Op != "=" {
			l, f := e.load(n.S)
			if f != nil {
				return 0, f
			}
			v, f = e.binop(strings.TrimSuffix(n.Op, "="), l, r)
			if f != nil {
				return 0, f
			}
		}
		e.Store[n.S] = strconv.FormatInt(v, 10)
		return v, nil
	}
	return 0, nil
}

// access sets of a subtree
type rw struct{ r, w map[string]bool }

func union(a, b rw) rw {
	o := rw{map[string]bool{}, map[string]bool{}}
	for _, x := range []rw{a, b} {
		for k := range x.r {
			o.r[k] = true
		}
		for k := range x.w {
			o.w[k] = true
		}
	}
	return o
}

func conflict(a, b rw) bool {
	for k := range a.w {
		if b.r[k] || b.w[k] {
			return true
		}
	}
	for k := range b.w {
		if a.r[k] {
			return true
		}
	}
	return false
}

// Defined reports whether C defines the value of the tree as far as
// sequencing goes: no variable is modified and otherwise accessed without an
// intervening sequence point. (Faults that are unsequenced relative to a side
// effect are found dynamically: evaluate with both operand orders, see RTL.)
func (n *ANode) Defined() bool {
	ok := true
	var rec func(n *ANode) rw
	rec = func(n *ANode) rw {
		e := rw{map[string]bool{}, map[string]bool{}}
		if n == nil {
			return e
		}
		switch n.Kind {
		case "var":
			e.r[n.S] = true
		case "preinc", "predec", "postinc", "postdec":
			e.w[n.S] = true
		case "un":
			return rec(n.A)
		case "bin":
			a, b := rec(n.A), rec(n.B)
			if n.Op != "&&" && n.Op != "||" && conflict(a, b) {
				ok = false
			}
			return union(a, b)
		case "cond":
			return union(rec(n.A), union(rec(n.B), rec(n.C)))
		case "asg":
			a := rec(n.A)
			if a.w[n.S] {
				ok = false
			}
			a.w[n.S] = true
			return a
		}
		return e
	}
	rec(n)
	return ok
}

// Features describes a tree for the non-triviality rule and statistics.
type AFeatures struct {
	Ops        int
	Precs      map[int]bool
	SideEffect bool
	Boundary   bool
	Depth      int
}

func (n *ANode) Features() AFeatures {
	f := AFeatures{Precs: map[int]bool{}}
	var rec func(n *ANode, d int)
	rec = func(n *ANode, d int) {
		if n == nil {
			return
		}
		if d > f.Depth {
			f.Depth = d
		}
		switch n.Kind {
		case "num":
			if n.S == "9223372036854775807" {
				f.Boundary = true
			}
		case "var":
		case "preinc", "predec", "postinc", "postdec", "asg":
			f.SideEffect = true
			f.Ops++
			f.Precs[n.prec()] = true
		default:
			f.Ops++
			f.Precs[n.prec()] = true
		}
		rec(n.A, d+1)
		rec(n.B, d+1)
		rec(n.C, d+1)
	}
	rec(n, 0)
	return f
}

func (n *ANode) hasBadConst() bool {
	if n == nil {
		return false
	}
	if n.Kind == "num" {
		_, ok := ParseNumber(n.S, false)
		return !ok
	}
	return n.A.hasBadConst() || n.B.hasBadConst() || n.C.hasBadConst()
}

// SideEffectUnderSeqOp reports whether an operand of && || ?: contains a
// side effect. go.sh evaluates all operands while parsing and looks variables
// up late, so sequence points are not honoured there (finding #20).
func (n *ANode) SideEffectUnderSeqOp() bool {
	if n == nil {
		return false
	}
	seq := n.Kind == "cond" || n.Kind == "bin" && (n.Op == "&&" || n.Op == "||")
	if seq && (n.A.hasSideEffect() || n.B.hasSideEffect() || n.C.hasSideEffect()) {
		return true
	}
	return n.A.SideEffectUnderSeqOp() || n.B.SideEffectUnderSeqOp() || n.C.SideEffectUnderSeqOp()
}

func (n *ANode) hasSideEffect() bool {
	if n == nil {
		return false
	}
	switch n.Kind {
	case "asg", "preinc", "predec", "postinc", "postdec":
		return true
	}
	return n.A.hasSideEffect() || n.B.hasSideEffect() || n.C.hasSideEffect()
}

// UnsequencedFault reports whether a definite fault (a read of a variable in
// faulty, a malformed constant, a non-lvalue target) and a side effect are
// operands of the same unsequenced operator: C does not say which is
// evaluated first, so "no assignment after the first fault" is not decidable.
func (n *ANode) UnsequencedFault(faulty map[string]bool) bool {
	found := false
	var rec func(n *ANode) (fault, side bool)
	rec = func(n *ANode) (bool, bool) {
		if n == nil {
			return false, false
		}
		switch n.Kind {
		case "num":
			_, ok := ParseNumber(n.S, false)
			return !ok, false
		case "var":
			return faulty[n.S], false
		case "preinc", "predec", "postinc", "postdec":
			return faulty[n.S] || !isLValue(n.S), true
		case "un":
			return rec(n.A)
		case "bin":
			fa, sa := rec(n.A)
			fb, sb := rec(n.B)
			if n.Op != "&&" && n.Op != "||" && (fa && sb || fb && sa) {
				found = true
			}
			return fa || fb, sa || sb
		case "cond":
			fa, sa := rec(n.A)
			fb, sb := rec(n.B)
			fc, sc := rec(n.C)
			return fa || fb || fc, sa || sb || sc
		case "asg":
			fa, sa := rec(n.A)
			self := !isLValue(n.S) || n.Op != "=" && faulty[n.S]
			if self && sa {
				found = true
			}
			return fa || self, true
		}
		return false, false
	}
	rec(n)
	return found
}
