// Package ref holds the reference models the checks compare go.sh against.
// None of them shares code with go.sh: no regexp, no goyacc tables, no go.sh
// helpers.
package ref

import (
	"errors"
	"strings"
	"unicode"
)

// ---- shell pattern notation (XCU 2.13) ------------------------------------

type elemKind int

const (
	eLit elemKind = iota
	eAny
	eStar
	eBracket
)

type bitem struct {
	lo, hi rune
	class  string
}

// Elem is one element of a parsed pattern.
type Elem struct {
	Kind  elemKind
	R     rune
	Neg   bool
	Items []bitem
}

// Pattern is a parsed pattern.
type Pattern struct {
	Elems []Elem
	// Wild reports whether the pattern has a wildcard or bracket expression.
	Wild bool
	// OpenClass reports that a bracket expression holds "[:" with no ":]"
	// after it. Both characters are then ordinary, but implementations
	// disagree whether the "[" is a member of the set (dash) or dropped
	// (bash); ParsePatternAlt gives the other reading.
	OpenClass bool
}

var (
	// ErrMalformed: the pattern is not well-formed (unterminated bracket
	// expression, trailing backslash, reversed range, unknown class).
	ErrMalformed = errors.New("malformed pattern")
	// ErrUnmodelled: the pattern uses collating symbols or equivalence
	// classes, or another construct whose meaning shells disagree about.
	ErrUnmodelled = errors.New("pattern outside the modelled notation")
)

// ParsePattern parses shell pattern notation.
func ParsePattern(p string) (*Pattern, error) { return parsePattern(p, false) }

// ParsePatternAlt parses p like ParsePattern, but drops the "[" of a "[:"
// that begins no class (see Pattern.OpenClass).
func ParsePatternAlt(p string) (*Pattern, error) { return parsePattern(p, true) }

func parsePattern(p string, alt bool) (*Pattern, error) {
	rs := []rune(p)
	pt := &Pattern{}
	for i := 0; i < len(rs); i++ {
		switch rs[i] {
		case '?':
			pt.Elems = append(pt.Elems, Elem{Kind: eAny})
			pt.Wild = true
		case '*':
			pt.Elems = append(pt.Elems, Elem{Kind: eStar})
			pt.Wild = true
		case '\\':
			if i+1 >= len(rs) {
				return nil, ErrMalformed
			}
			i++
			pt.Elems = append(pt.Elems, Elem{Kind: eLit, R: rs[i]})
		case '[':
			e, n, open, err := parseBracket(rs[i:], alt)
			if err != nil {
				return nil, err
			}
			pt.OpenClass = pt.OpenClass || open
			pt.Elems = append(pt.Elems, e)
			pt.Wild = true
			i += n - 1
		default:
			pt.Elems = append(pt.Elems, Elem{Kind: eLit, R: rs[i]})
		}
	}
	return pt, nil
}

func parseBracket(rs []rune, alt bool) (e Elem, n int, open bool, err error) {
	e = Elem{Kind: eBracket}
	i := 1
	if i < len(rs) && (rs[i] == '!' || rs[i] == '^') {
		e.Neg = true
		i++
	}
	first := true
	for {
		if i >= len(rs) {
			return e, 0, open, ErrMalformed
		}
		c := rs[i]
		if c == ']' && !first {
			return e, i + 1, open, nil
		}
		first = false
		var lo rune
		switch {
		case c == '[' && i+1 < len(rs) && (rs[i+1] == ':' || rs[i+1] == '.' || rs[i+1] == '='):
			k := rs[i+1]
			if k == '=' {
				// "[=" begins an equivalence class only when "=]" follows before
				// the next "]"; otherwise both characters are ordinary (dash
				// and bash agree)
				j := i + 2
				for j+1 < len(rs) && rs[j] != ']' && !(rs[j] == '=' && rs[j+1] == ']') {
					j++
				}
				if j+1 < len(rs) && rs[j] == '=' && rs[j+1] == ']' && j > i+2 {
					return e, 0, open, ErrUnmodelled
				}
				if j+1 < len(rs) && rs[j] == '=' && rs[j+1] == ']' {
					return e, 0, open, ErrUnmodelled // "[==]"
				}
				e.Items = append(e.Items, bitem{lo: '[', hi: '['})
				i++
				continue
			}
			if k != ':' {
				return e, 0, open, ErrUnmodelled
			}
			j := i + 2
			for j+1 < len(rs) && rs[j] != ']' && !(rs[j] == k && rs[j+1] == ']') {
				j++
			}
			// (the class has to be closed before the bracket expression is)
			if j+1 >= len(rs) || rs[j] == ']' {
				// "[:" without ":]": both are ordinary characters; the "[" is
				// a member of the set in one reading and dropped in the other
				open = true
				if !alt {
					e.Items = append(e.Items, bitem{lo: '[', hi: '['})
				}
				i++
				continue
			}
			name := string(rs[i+2 : j])
			if _, ok := classMatch(name, 'a'); !ok {
				return e, 0, open, ErrMalformed
			}
			e.Items = append(e.Items, bitem{class: name})
			i = j + 2
			continue
		case c == '\\':
			if i+1 >= len(rs) {
				return e, 0, open, ErrMalformed
			}
			i++
			lo = rs[i]
		default:
			lo = c
		}
		i++
		// range?
		if i+1 < len(rs) && rs[i] == '-' && rs[i+1] != ']' {
			hi := rs[i+1]
			i += 2
			switch hi {
			case '\\':
				if i >= len(rs) {
					return e, 0, open, ErrMalformed
				}
				hi = rs[i]
				i++
			case '[':
				// "[a-[:alpha:]]" and friends
				if i < len(rs) && (rs[i] == ':' || rs[i] == '.' || rs[i] == '=') {
					return e, 0, open, ErrUnmodelled
				}
			}
			if hi < lo {
				return e, 0, open, ErrMalformed
			}
			e.Items = append(e.Items, bitem{lo: lo, hi: hi})
			continue
		}
		e.Items = append(e.Items, bitem{lo: lo, hi: lo})
	}
}

func classMatch(name string, r rune) (match, known bool) {
	switch name {
	case "alpha":
		return unicode.IsLetter(r), true
	case "digit":
		return '0' <= r && r <= '9', true
	case "alnum":
		return unicode.IsLetter(r) || ('0' <= r && r <= '9'), true
	case "upper":
		return unicode.IsUpper(r), true
	case "lower":
		return unicode.IsLower(r), true
	case "space":
		return r == ' ' || ('\t' <= r && r <= '\r'), true
	case "blank":
		return r == ' ' || r == '\t', true
	case "punct":
		return r < 128 && (unicode.IsPunct(r) || strings.ContainsRune("$+<=>^`|~", r)), true
	case "xdigit":
		return ('0' <= r && r <= '9') || ('a' <= r && r <= 'f') || ('A' <= r && r <= 'F'), true
	case "cntrl":
		return r < 32 || r == 127, true
	case "print":
		return 32 <= r && r < 127, true
	case "graph":
		return 32 < r && r < 127, true
	}
	return false, false
}

// ASCIIOnlyClass reports whether a class name has a meaning that is only
// pinned down for ASCII subjects (the models agree there; for other runes
// implementations differ).
func ASCIIOnlyClass(name string) bool {
	switch name {
	case "digit", "blank", "xdigit":
		return false
	}
	return true
}

func (e *Elem) matchOne(r rune) bool {
	switch e.Kind {
	case eLit:
		return e.R == r
	case eAny:
		return true
	case eBracket:
		m := false
		for _, it := range e.Items {
			if it.class != "" {
				ok, _ := classMatch(it.class, r)
				m = m || ok
			} else if it.lo <= r && r <= it.hi {
				m = true
			}
		}
		return m != e.Neg
	}
	return false
}

// Whole reports whether the pattern matches s as a whole.
func (p *Pattern) Whole(s []rune) bool { return whole(p.Elems, s) }

func whole(es []Elem, s []rune) bool {
	for len(es) > 0 && es[0].Kind != eStar {
		if len(s) == 0 || !es[0].matchOne(s[0]) {
			return false
		}
		es, s = es[1:], s[1:]
	}
	if len(es) == 0 {
		return len(s) == 0
	}
	// es[0] is a star
	for k := 0; k <= len(s); k++ {
		if whole(es[1:], s[k:]) {
			return true
		}
	}
	return false
}

// Affixes returns the lengths (in runes) of all prefixes (or suffixes) of s
// that at least one of the patterns matches as a whole, in ascending order.
func Affixes(pats []*Pattern, prefix bool, s []rune) []int {
	var out []int
	for k := 0; k <= len(s); k++ {
		sub := s[:k]
		if !prefix {
			sub = s[len(s)-k:]
		}
		for _, p := range pats {
			if p.Whole(sub) {
				out = append(out, k)
				break
			}
		}
	}
	return out
}
