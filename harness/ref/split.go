package ref

import (
	"strings"
	"unicode"
)

// ---- field splitting (XCU 2.6.5, as restated by property C14) ---------------

// Seg is a run of text of a word together with its quoted flag.
type Seg struct {
	Text   string `json:"text"`
	Quoted bool   `json:"quoted"`
}

type sch struct {
	r      rune
	quoted bool
	mark   bool // an empty quoted part
}

// Split cuts the word at unquoted IFS characters. ifsSet=false means IFS is
// unset (space, tab, newline).
func Split(segs []Seg, ifs string, ifsSet bool) []string {
	if !ifsSet {
		ifs = " \t\n"
	}
	var cs []sch
	for _, s := range segs {
		if s.Quoted && s.Text == "" {
			cs = append(cs, sch{mark: true, quoted: true})
		}
		for _, r := range s.Text {
			cs = append(cs, sch{r: r, quoted: s.Quoted})
		}
	}
	type field struct {
		b      strings.Builder
		quoted bool
	}
	var fields []*field
	cur := &field{}
	flush := func() {
		fields = append(fields, cur)
		cur = &field{}
	}
	add := func(c sch) {
		if c.mark {
			cur.quoted = true
			return
		}
		cur.b.WriteRune(c.r)
		cur.quoted = cur.quoted || c.quoted
	}
	if ifs == "" {
		for _, c := range cs {
			add(c)
		}
		flush()
	} else {
		isIFS := func(c sch) bool { return !c.quoted && !c.mark && strings.ContainsRune(ifs, c.r) }
		isWS := func(c sch) bool { return isIFS(c) && unicode.IsSpace(c.r) }
		i := 0
		for i < len(cs) && isWS(cs[i]) { // leading IFS white space is ignored
			i++
		}
		for i < len(cs) {
			c := cs[i]
			if !isIFS(c) {
				add(c)
				i++
				continue
			}
			// a delimiter: ws* (nonws ws*)?
			j := i
			for j < len(cs) && isWS(cs[j]) {
				j++
			}
			if j < len(cs) && isIFS(cs[j]) && !isWS(cs[j]) {
				j++
				for j < len(cs) && isWS(cs[j]) {
					j++
				}
			} else if j == len(cs) {
				i = j // trailing IFS white space is ignored
				break
			}
			flush()
			i = j
		}
		flush()
	}
	var out []string
	for _, f := range fields {
		if f.b.Len() == 0 && !f.quoted {
			continue
		}
		out = append(out, f.b.String())
	}
	return out
}

// Conserved returns the word's text with exactly the unquoted IFS characters
// removed: what the concatenation of the fields has to be.
func Conserved(segs []Seg, ifs string, ifsSet bool) string {
	if !ifsSet {
		ifs = " \t\n"
	}
	var b strings.Builder
	for _, s := range segs {
		for _, r := range s.Text {
			if !s.Quoted && strings.ContainsRune(ifs, r) {
				continue
			}
			b.WriteRune(r)
		}
	}
	return b.String()
}
