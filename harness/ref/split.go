package ref

import (
	"encoding/hex"
	"encoding/json"
	"strings"
	"unicode"
	"unicode/utf8"
)

// ---- field splitting (XCU 2.6.5, as restated by property C14) ---------------

// Seg is a run of text of a word together with its quoted flag.
type Seg struct {
	Text   string `json:"text"`
	Quoted bool   `json:"quoted"`
	// Expr, if not empty, is an arithmetic expression whose value, written
	// in decimal, is Text: the segment is the arithmetic expansion $((Expr)).
	Expr string `json:"expr,omitempty"`
	// Style says how the segment is written; it does not change what the
	// segment means. Quoted segments: "'" single quotes, "\"" double quotes,
	// "\\" a backslash in front of every character, "$" a double-quoted
	// variable, "\"-" the default word of an unset parameter inside double
// quotes. Empty unquoted segments: "@" an unquoted $@ and "\"@" a
	// double-quoted "$@" with no positional parameters (both contribute
	// nothing, not even a quoted empty part). "" leaves the choice to the check.
	Style string `json:"style,omitempty"`
}

// JSON cannot carry text that is not valid UTF-8: it is recorded as
// hexadecimal in text_hex instead.
type segPlain Seg

type segWire struct {
	segPlain
	Hex string `json:"text_hex,omitempty"`
}

func (s Seg) MarshalJSON() ([]byte, error) {
	w := segWire{segPlain: segPlain(s)}
	if !utf8.ValidString(s.Text) {
		w.Hex, w.Text = hex.EncodeToString([]byte(s.Text)), ""
	}
	return json.Marshal(w)
}

func (s *Seg) UnmarshalJSON(b []byte) error {
	var w segWire
	if err := json.Unmarshal(b, &w); err != nil {
		return err
	}
	*s = Seg(w.segPlain)
	if w.Hex != "" {
		x, err := hex.DecodeString(w.Hex)
		if err != nil {
			return err
		}
		s.Text = string(x)
	}
	return nil
}

type sch struct {
	r      rune
	txt    string // the bytes of the character (an invalid byte is a character of its own)
	quoted bool
	mark   bool // an empty quoted part
}

// Split cuts the word at unquoted IFS characters. ifsSet=false means IFS is
// unset (space, tab, newline).
func Split(segs []Seg, ifs string, ifsSet bool) []string {
	if !ifsSet {
		ifs = " \t\n"
	}
	var cs []sch
	for _, s := range segs {
		if s.Quoted && s.Text == "" {
			cs = append(cs, sch{mark: true, quoted: true})
		}
		for j, r := range s.Text {
			_, w := utf8.DecodeRuneInString(s.Text[j:])
			cs = append(cs, sch{r: r, txt: s.Text[j : j+w], quoted: s.Quoted})
		}
	}
	type field struct {
		b      strings.Builder
		quoted bool
	}
	var fields []*field
	cur := &field{}
	flush := func() {
		fields = append(fields, cur)
		cur = &field{}
	}
	add := func(c sch) {
		if c.mark {
			cur.quoted = true
			return
		}
		cur.b.WriteString(c.txt)
		cur.quoted = cur.quoted || c.quoted
	}
	if ifs == "" {
		for _, c := range cs {
			add(c)
		}
		flush()
	} else {
		isIFS := func(c sch) bool { return !c.quoted && !c.mark && inIFS(ifs, c.txt) }
		isWS := func(c sch) bool { return isIFS(c) && unicode.IsSpace(c.r) }
		i := 0
		for i < len(cs) && isWS(cs[i]) { // leading IFS white space is ignored
			i++
		}
		for i < len(cs) {
			c := cs[i]
			if !isIFS(c) {
				add(c)
				i++
				continue
			}
			// a delimiter: ws* (nonws ws*)?
			j := i
			for j < len(cs) && isWS(cs[j]) {
				j++
			}
			if j < len(cs) && isIFS(cs[j]) && !isWS(cs[j]) {
				j++
				for j < len(cs) && isWS(cs[j]) {
					j++
				}
			} else if j == len(cs) {
				i = j // trailing IFS white space is ignored
				break
			}
			flush()
			i = j
		}
		flush()
	}
	var out []string
	for _, f := range fields {
		if f.b.Len() == 0 && !f.quoted {
			continue
		}
		out = append(out, f.b.String())
	}
	return out
}

// Conserved returns the word's text with exactly the unquoted IFS characters
// removed: what the concatenation of the fields has to be.
func Conserved(segs []Seg, ifs string, ifsSet bool) string {
	if !ifsSet {
		ifs = " \t\n"
	}
	var b strings.Builder
	for _, s := range segs {
		for j := range s.Text {
			_, w := utf8.DecodeRuneInString(s.Text[j:])
			if !s.Quoted && inIFS(ifs, s.Text[j:j+w]) {
				continue
			}
			b.WriteString(s.Text[j : j+w])
		}
	}
	return b.String()
}

// inIFS: the character (its bytes) is one of the characters of ifs. Invalid
// bytes are characters of their own and equal only to the same byte.
func inIFS(ifs, ch string) bool {
	for j := range ifs {
		_, w := utf8.DecodeRuneInString(ifs[j:])
		if ifs[j:j+w] == ch {
			return true
		}
	}
	return false
}
