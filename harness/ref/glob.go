package ref

import (
	"os"
	"sort"
	"strings"
)

// ---- pathname expansion (XCU 2.13.3, as restated by property C16) ------------

type globComp struct {
	pat  string
	seps int // slashes that follow the component
}

// splitGlob cuts a pattern into components at unescaped and escaped slashes.
func splitGlob(p string) (lead int, comps []globComp) {
	i := 0
	for i < len(p) && p[i] == '/' {
		i++
	}
	lead = i
	cur := ""
	for i < len(p) {
		c := p[i]
		switch {
		case c == '\\' && i+1 < len(p):
			if p[i+1] == '/' {
				// an escaped slash still separates
				comps = append(comps, globComp{cur, 1})
				cur = ""
				i += 2
				for i < len(p) && p[i] == '/' {
					comps[len(comps)-1].seps++
					i++
				}
				continue
			}
			cur += p[i : i+2]
			i += 2
		case c == '/':
			n := 0
			for i < len(p) && p[i] == '/' {
				n++
				i++
			}
			comps = append(comps, globComp{cur, n})
			cur = ""
		default:
			cur += p[i : i+1]
			i++
		}
	}
	if cur != "" {
		comps = append(comps, globComp{cur, 0})
	}
	return
}

func globLiteral(p string) (string, bool) {
	var b strings.Builder
	for i := 0; i < len(p); i++ {
		switch p[i] {
		case '\\':
			if i+1 < len(p) {
				i++
				b.WriteByte(p[i])
				continue
			}
			return "", false
		case '*', '?', '[':
			return "", false
		}
		b.WriteByte(p[i])
	}
	return b.String(), true
}

// Glob walks the file system below the current directory (or the root for
// absolute patterns) and returns the sorted paths that match the pattern
// component by component. ok is false when a component is not a
// well-formed pattern the reference matcher models.
func Glob(pattern string) (paths []string, ok bool) {
	if pattern == "" {
		return nil, true
	}
	lead, comps := splitGlob(pattern)
	cur := []string{strings.Repeat("/", lead)}
	for _, c := range comps {
		sep := strings.Repeat("/", c.seps)
		var next []string
		if c.pat == "" {
			for _, p := range cur {
				next = append(next, p+sep)
			}
			cur = next
			continue
		}
		if lit, isLit := globLiteral(c.pat); isLit {
			for _, p := range cur {
				q := p + lit
				if c.seps > 0 {
					if fi, err := os.Stat(q); err != nil || !fi.IsDir() {
						continue
					}
				} else if _, err := os.Lstat(q); err != nil {
					continue
				}
				next = append(next, q+sep)
			}
		} else {
			pt, err := ParsePattern(c.pat)
			if err != nil {
				return nil, false
			}
			for _, p := range cur {
				dir := p
				if dir == "" {
					dir = "."
				}
				ents, err := os.ReadDir(dir)
				if err != nil {
					continue
				}
				names := []string{".", ".."}
				for _, e := range ents {
					names = append(names, e.Name())
				}
				for _, n := range names {
					if strings.HasPrefix(n, ".") && !(strings.HasPrefix(c.pat, ".") || strings.HasPrefix(c.pat, `\.`)) {
						continue // a leading period is matched only by a literal period
					}
					if !pt.Whole([]rune(n)) {
						continue
					}
					q := p + n
					if c.seps > 0 {
						if fi, err := os.Stat(q); err != nil || !fi.IsDir() {
							continue
						}
					}
					next = append(next, q+sep)
				}
			}
		}
		if len(next) == 0 {
			return nil, true
		}
		cur = next
	}
	sort.Strings(cur)
	// no duplicates by construction, but say so
	out := cur[:0]
	for i, p := range cur {
		if i == 0 || p != cur[i-1] {
			out = append(out, p)
		}
	}
	return out, true
}
