package ref

import (
	"strings"
	"unicode"
)

// ---- recogniser of the shell grammar (go.sh's dialect) over token lists ------
//
// A recursive-descent recogniser of one complete command, as one call of
// ParseCommands sees it. It is written from the POSIX grammar plus the
// dialect facts listed in DESIGN.md (reserved words are recognised wherever
// a command may start and directly after a compound command; "in" is always
// reserved at command start; special built-ins are rejected as function
// names; "((...))" is a compound command; a top-level newline ends the
// command). It shares no code with go.sh.

// RKind classifies a recogniser token.
type RKind int

const (
	RWord    RKind = iota // any word (reserved words included: decided by position)
	ROp                   // control operator or "(" ")"
	RRedir                // redirection operator (with its io-number, if any), needs a word
	RHeredoc              // "<<" or "<<-": needs a word and a body
	RNewline              // <newline>
	RArith                // a complete "((...))"
)

// RTok is a token as the recogniser sees it.
type RTok struct {
	Kind RKind
	Text string // flat text of the token
}

// Verdict of the recogniser.
type Verdict int

const (
	Sentence   Verdict = iota // a complete command (possibly empty), accepted
	Incomplete                // the input ended inside a construct
	Invalid                   // not a prefix of any sentence
)

func (v Verdict) String() string { return [...]string{"sentence", "incomplete", "invalid"}[v] }

var reservedWords = map[string]bool{"!": true, "{": true, "}": true, "for": true, "case": true, "esac": true, "in": true, "if": true, "elif": true, "then": true, "else": true, "fi": true, "while": true, "until": true, "do": true, "done": true}

var specialBuiltins = map[string]bool{"break": true, ":": true, "continue": true, ".": true, "eval": true, "exec": true, "exit": true, "export": true, "readonly": true, "return": true, "set": true, "shift": true, "times": true, "trap": true, "unset": true}

// IsName reports whether s is a name (letters in the Unicode sense, as go.sh
// has them).
func IsName(s string) bool {
	if s == "" {
		return false
	}
	for i, r := range s {
		if !(r == '_' || unicode.IsLetter(r) || i > 0 && unicode.IsDigit(r)) {
			return false
		}
	}
	return true
}

// IsAssignment reports whether a word in prefix position is an assignment
// word: its leading unquoted literal text contains "=" after a name.
func IsAssignment(text string) bool {
	lit := text
	if i := strings.IndexAny(text, "'\"\\$`"); i >= 0 {
		lit = text[:i]
	}
	i := strings.IndexByte(lit, '=')
	return i > 0 && IsName(lit[:i])
}

type recog struct {
	t   []RTok
	i   int
	inc bool
	// heredoc: a here-document operator was accepted; without a body the
	// command cannot be complete (the token domains carry no bodies)
	heredoc bool
}

type recogFail struct{}

func (p *recog) eof() bool { return p.i >= len(p.t) }

func (p *recog) peek() RTok {
	if p.i < len(p.t) {
		return p.t[p.i]
	}
	return RTok{Kind: -1}
}

// is reports whether the next token is the operator / reserved word s.
func (p *recog) isOp(s string) bool {
	t := p.peek()
	return !p.eof() && (t.Kind == ROp || t.Kind == RNewline) && t.Text == s
}

func (p *recog) isRes(s string) bool {
	t := p.peek()
	return !p.eof() && t.Kind == RWord && t.Text == s
}

func (p *recog) bad() {
	if p.eof() {
		p.inc = true
	}
	panic(recogFail{})
}

func (p *recog) expectOp(s string) {
	if !p.isOp(s) {
		p.bad()
	}
	p.i++
}

func (p *recog) expectRes(s string) {
	if !p.isRes(s) {
		p.bad()
	}
	p.i++
}

func (p *recog) linebreak() {
	for !p.eof() && p.peek().Kind == RNewline {
		p.i++
	}
}

// Recognise classifies the token list as ParseCommands would see it: one
// complete command up to a top-level newline or the end of input.
func Recognise(toks []RTok) (v Verdict) {
	p := &recog{t: toks}
	defer func() {
		if e := recover(); e != nil {
			if _, ok := e.(recogFail); !ok {
				panic(e)
			}
			if p.inc {
				v = Incomplete
			} else {
				v = Invalid
			}
		}
	}()
	if p.eof() || p.peek().Kind == RNewline {
		return Sentence
	}
	p.list(true)
	if !p.eof() && p.peek().Kind != RNewline {
		p.bad()
	}
	if p.heredoc {
		// the body is missing
		return Incomplete
	}
	return Sentence
}

// cmdStart reports whether a command can start at the next token.
func (p *recog) cmdStart() bool {
	if p.eof() {
		return false
	}
	t := p.peek()
	switch t.Kind {
	case ROp:
		return t.Text == "("
	case RNewline:
		return false
	case RArith, RRedir, RHeredoc:
		return true
	}
	if reservedWords[t.Text] {
		switch t.Text {
		case "!", "{", "for", "case", "if", "while", "until":
			return true
		}
		return false
	}
	return true
}

func (p *recog) list(top bool) {
	p.andOr()
	for {
		switch {
		case p.isOp(";") || p.isOp("&"):
			p.i++
			if top {
				if p.eof() || p.peek().Kind == RNewline {
					return
				}
				p.andOr()
				continue
			}
			p.linebreak()
			if !p.cmdStart() {
				return
			}
			p.andOr()
		case !top && !p.eof() && p.peek().Kind == RNewline:
			p.linebreak()
			if !p.cmdStart() {
				return
			}
			p.andOr()
		default:
			return
		}
	}
}

func (p *recog) compoundList() {
	p.linebreak()
	if !p.cmdStart() {
		p.bad()
	}
	p.list(false)
}

func (p *recog) andOr() {
	p.pipeline()
	for p.isOp("&&") || p.isOp("||") {
		p.i++
		p.linebreak()
		p.pipeline()
	}
}

func (p *recog) pipeline() {
	if p.isRes("!") {
		p.i++
	}
	p.command()
	for p.isOp("|") {
		p.i++
		p.linebreak()
		p.command()
	}
}

// redir consumes one redirection if there is one.
func (p *recog) redir() bool {
	if p.eof() {
		return false
	}
	t := p.peek()
	if t.Kind != RRedir && t.Kind != RHeredoc {
		return false
	}
	p.i++
	if p.eof() || p.peek().Kind != RWord {
		p.bad()
	}
	p.i++
	if t.Kind == RHeredoc {
		p.heredoc = true
	}
	return true
}

// redirs consumes the redirections behind a compound command. A reserved
// word is recognised directly behind the closing token of a compound command
// (the dialect; C02 states it), but behind a redirection every word is an
// ordinary word, and an ordinary word cannot follow a compound command.
func (p *recog) redirs() {
	n := 0
	for p.redir() {
		n++
	}
	if n > 0 && !p.eof() && p.peek().Kind == RWord {
		p.bad()
	}
}

func (p *recog) command() {
	if p.eof() {
		p.bad()
	}
	t := p.peek()
	switch t.Kind {
	case ROp:
		if t.Text != "(" {
			p.bad()
		}
		p.i++
		p.compoundList()
		p.expectOp(")")
		p.redirs()
		return
	case RNewline:
		p.bad()
	case RArith:
		p.i++
		p.redirs()
		return
	case RRedir, RHeredoc:
		p.simple()
		return
	}
	if !reservedWords[t.Text] {
		p.simple()
		return
	}
	switch t.Text {
	case "{":
		p.i++
		p.compoundList()
		p.expectRes("}")
	case "for":
		p.forClause()
	case "case":
		p.caseClause()
	case "if":
		p.ifClause()
	case "while", "until":
		p.i++
		p.compoundList()
		p.expectRes("do")
		p.compoundList()
		p.expectRes("done")
	default:
		p.bad()
	}
	p.redirs()
}

func (p *recog) simple() {
	n := 0
	for !p.eof() {
		t := p.peek()
		if t.Kind == RRedir || t.Kind == RHeredoc {
			p.redir()
			n++
			continue
		}
		if t.Kind == RWord && IsAssignment(t.Text) {
			p.i++
			n++
			continue
		}
		break
	}
	if p.eof() || p.peek().Kind != RWord {
		if n == 0 {
			p.bad()
		}
		return
	}
	w := p.peek()
	p.i++
	if n == 0 && IsName(w.Text) && p.isOp("(") {
		// function definition
		if specialBuiltins[w.Text] {
			panic(recogFail{})
		}
		p.i++
		p.expectOp(")")
		p.linebreak()
		if p.eof() {
			p.bad()
		}
		t := p.peek()
		compound := t.Kind == RArith || t.Kind == ROp && t.Text == "(" ||
			t.Kind == RWord && (t.Text == "{" || t.Text == "for" || t.Text == "case" || t.Text == "if" || t.Text == "while" || t.Text == "until")
		if !compound {
			p.bad()
		}
		p.command()
		return
	}
	for !p.eof() {
		t := p.peek()
		if t.Kind == RRedir || t.Kind == RHeredoc {
			p.redir()
			continue
		}
		if t.Kind == RWord {
			p.i++
			continue
		}
		break
	}
}

func (p *recog) forClause() {
	p.i++
	if p.eof() || p.peek().Kind != RWord || !IsName(p.peek().Text) {
		p.bad()
	}
	p.i++
	switch {
	case p.isOp(";"):
		p.i++
		p.linebreak()
	default:
		p.linebreak()
		if p.isRes("in") {
			p.i++
			for !p.eof() && p.peek().Kind == RWord {
				p.i++
			}
			switch {
			case p.isOp(";"):
				p.i++
				p.linebreak()
			case !p.eof() && p.peek().Kind == RNewline:
				p.linebreak()
			default:
				p.bad()
			}
		}
	}
	p.expectRes("do")
	p.compoundList()
	p.expectRes("done")
}

func (p *recog) caseClause() {
	p.i++
	if p.eof() || p.peek().Kind != RWord {
		p.bad()
	}
	p.i++
	p.linebreak()
	p.expectRes("in")
	p.linebreak()
	for {
		if p.isRes("esac") {
			p.i++
			return
		}
		if p.isOp("(") {
			p.i++
		}
		if p.eof() || p.peek().Kind != RWord {
			p.bad()
		}
		p.i++
		for p.isOp("|") {
			p.i++
			if p.eof() || p.peek().Kind != RWord {
				p.bad()
			}
			p.i++
		}
		p.expectOp(")")
		p.linebreak()
		if p.cmdStart() {
			p.list(false)
		}
		if p.isOp(";;") {
			p.i++
			p.linebreak()
			continue
		}
		p.expectRes("esac")
		return
	}
}

func (p *recog) ifClause() {
	p.i++
	p.compoundList()
	p.expectRes("then")
	p.compoundList()
	for p.isRes("elif") {
		p.i++
		p.compoundList()
		p.expectRes("then")
		p.compoundList()
	}
	if p.isRes("else") {
		p.i++
		p.compoundList()
	}
	p.expectRes("fi")
}
