// Package gen generates shell programs from the grammar, together with the
// skeleton go.sh is expected to build for them. A program is a Stream of
// tokens; the text is produced by a renderer that owns all layout decisions
// (blanks, comments, line continuations, extra newlines), so that the same
// program can be written in many grammar-preserving ways and every token
// boundary is known by construction.
package gen

import (
	"strings"
	"unicode/utf8"
)

// TokKind classifies a token for layout purposes.
type TokKind int

const (
	KWord     TokKind = iota // WORD, NAME, ASSIGNMENT_WORD
	KReserved                // reserved word
	KOp                      // operator (control or redirection)
	KIONum                   // io-number, glued to the operator that follows
	KNewline                 // <newline> token
)

// Piece is a part of a token's text: literal text, or a nested stream (the
// body of a command substitution).
type Piece struct {
	Text string
	Sub  *Stream
}

// HD is a here-document attached to a redirection token.
type HD struct {
	Body  string // the lines, each ending in "\n"
	Delim string // the delimiter line without its newline (incl. leading tabs for <<-)
	// DelimPrefix is written in front of the delimiter line: a line
	// continuation ("\\\n") on a line of its own, which joins with the delimiter line
	DelimPrefix string
	// expectations, used by C08
	Op        string   // "<<" or "<<-"
	WordSkel  string   // skeleton of the delimiter word
	BodySkel  []string // merged parts of the body
	Quoted    bool
	DelimText string // delimiter after quote removal
}

// Tok is one token.
type Tok struct {
	Kind   TokKind
	Pieces []Piece
	// Glue: no gap may be put between the previous token and this one.
	Glue bool
	// LinebreakAfter: the grammar has "linebreak" (or newline_list) after
	// this token, so newlines, blank lines and comment lines may follow.
	LinebreakAfter bool
	// SemiNL: this ";" separates and-or lists inside a construct and may be
	// exchanged for a newline.
	SemiNL bool
	// CmdPos: this word is in command position (eligible for alias
	// substitution).
	CmdPos bool
	// Inner: the token lies inside a compound construct or next to an
	// operator / reserved word (C09's non-triviality rule).
	Depth int
	// HD is set on the delimiter word of a here-document redirection.
	HD *HD
}

// Stream is a token sequence: a complete command, or the body of a command
// substitution (Open/Close are then "$(" ")" or "`" "`").
type Stream struct {
	Toks  []*Tok
	Open  string
	Close string
}

func (s *Stream) add(t *Tok) *Tok {
	s.Toks = append(s.Toks, t)
	return t
}

func text(kind TokKind, s string) *Tok { return &Tok{Kind: kind, Pieces: []Piece{{Text: s}}} }

// FlatText is the token's text with nested streams rendered canonically.
func (t *Tok) FlatText() string {
	var b strings.Builder
	for _, p := range t.Pieces {
		if p.Sub != nil {
			b.WriteString(Render(p.Sub, Canonical{}).Src)
		} else {
			b.WriteString(p.Text)
		}
	}
	return b.String()
}

// Layout decides the text of every gap.
type Layout interface {
	// Gap is called for the boundary before token i of stream s (i ==
	// len(s.Toks) is the boundary before the closer / end of input). need is
	// the minimal separator ("" or " "). It returns the text to put between
	// the tokens; the text must not contain newlines except through NL.
	Gap(b Boundary) GapText
}

// Boundary describes one gap.
type Boundary struct {
	Stream *Stream
	Index  int    // gap before Toks[Index]
	Seq    int    // running number over the whole program, depth first
	Need   string // "" or " "
	Glue   bool   // nothing may be inserted
	// ContOnly: a glued boundary (between an io-number and its operator)
	// where a blank is illegal but a line continuation is not
	ContOnly bool
	// Linebreak: newlines (and comment lines) may be inserted here
	Linebreak bool
	// BeforeNewline: the next token is a newline (or the end of the whole
	// input): a comment may be inserted here
	BeforeNewline bool
	AtEnd         bool // the boundary before the closer / end of the stream
	Top           bool // top-level stream
	Prev, Next    *Tok
}

// GapText is what a layout puts into a gap.
type GapText struct {
	Blanks     string // blanks/tabs (used when no other field is set)
	Cont       bool   // insert a backslash-newline behind the blanks
	After      string // blanks behind that backslash-newline
	Comment    string // comment text without "#" (only before a newline / at end)
	Newlines   int    // extra newlines (only where Linebreak); each may carry a comment
	NLComments []string
}

// EmptyComment, as the text of a comment in a GapText, stands for a comment
// without text (the empty string there means "no comment").
const EmptyComment = "\x00"

// Canonical is the layout with single blanks and nothing else.
type Canonical struct{}

func (Canonical) Gap(b Boundary) GapText { return GapText{Blanks: b.Need} }

// Comment is a comment the renderer wrote.
type Comment struct {
	Off  int // byte offset of "#"
	Text string
}

// Rendered is the result of rendering.
type Rendered struct {
	Src      string
	Comments []Comment
	// Starts[i] is the byte offset of top-level token i (flat index in the
	// order tokens were written, nested ones included).
	Starts []int
	Gaps   int // number of boundaries visited
}

// RenderExclude switches layout features off (known findings);
// RenderExcluded counts how often that happened.
var (
	RenderExclude  = map[string]bool{}
	RenderExcluded = map[string]int{}
)

type renderer struct {
	b        strings.Builder
	lay      Layout
	comments []Comment
	starts   []int
	seq      int
}

// Render writes the stream as source text.
func Render(s *Stream, lay Layout) Rendered {
	r := &renderer{lay: lay}
	r.stream(s, true)
	return Rendered{Src: r.b.String(), Comments: r.comments, Starts: r.starts, Gaps: r.seq}
}

func wordish(k TokKind) bool { return k == KWord || k == KReserved || k == KIONum }

// need computes the minimal separator between two tokens.
func need(prev, next *Tok, open string) string {
	if next == nil {
		return ""
	}
	nt := next.first()
	if prev == nil {
		// directly after the opener of a substitution
		if open == "$(" && strings.HasPrefix(nt, "(") {
			return " " // "$((" would be an arithmetic expansion
		}
		return ""
	}
	if prev.Kind == KNewline || next.Kind == KNewline {
		return ""
	}
	if wordish(prev.Kind) && wordish(next.Kind) {
		return " "
	}
	pt := prev.last()
	if prev.Kind == KOp && next.Kind == KOp {
		if opsFuse(pt, nt) {
			return " "
		}
		return ""
	}
	if wordish(prev.Kind) && next.Kind == KOp {
		// digits before a redirection operator would become an io-number
		if (strings.HasPrefix(nt, "<") || strings.HasPrefix(nt, ">")) && allDigits(prev.FlatText()) {
			return " "
		}
		// "$" before "(" would start a command substitution
		if strings.HasSuffix(pt, "$") && strings.HasPrefix(nt, "(") {
			return " "
		}
		return ""
	}
	if prev.Kind == KOp && wordish(next.Kind) {
		// "<<" followed by "-..." would become "<<-"
		if pt == "<<" && strings.HasPrefix(nt, "-") {
			return " "
		}
		// "<" / ">" followed by "&", ... cannot happen: words do not start with operators
		return ""
	}
	return ""
}

func allDigits(s string) bool {
	if s == "" {
		return false
	}
	for _, c := range s {
		if c < '0' || c > '9' {
			return false
		}
	}
	return true
}

var shellOps = []string{"<<-", "&&", "||", ";;", "((", "))", "<<", ">>", "<&", ">&", "<>", ">|", "&", "|", ";", "(", ")", "<", ">"}

// opsFuse reports whether two operators written without a blank would be
// read differently.
func opsFuse(a, b string) bool {
	s := a + b
	// tokenise s greedily the way go.sh's scanOp does
	var toks []string
	for s != "" {
		m := ""
		for _, op := range shellOps {
			if op == "((" || op == "))" {
				continue
			}
			if strings.HasPrefix(s, op) {
				m = op
				break
			}
		}
		if m == "" {
			return true
		}
		toks = append(toks, m)
		s = s[len(m):]
	}
	if len(toks) != 2 || toks[0] != a || toks[1] != b {
		return true
	}
	// "(" "(" pairs up to the opening arithmetic delimiter; ")" ")" only
	// does so where an arithmetic expression is open, and that is one token
	if a == "(" && b == "(" {
		return true
	}
	return false
}

func (t *Tok) first() string {
	if len(t.Pieces) == 0 {
		return ""
	}
	if p := t.Pieces[0]; p.Sub == nil {
		return p.Text
	}
	return "$("
}

func (t *Tok) last() string {
	if len(t.Pieces) == 0 {
		return ""
	}
	if p := t.Pieces[len(t.Pieces)-1]; p.Sub == nil {
		return p.Text
	}
	return ")"
}

func (r *renderer) stream(s *Stream, top bool) {
	r.b.WriteString(s.Open)
	var pending []*HD
	flush := func() {
		for _, h := range pending {
			r.b.WriteString(h.Body)
			r.b.WriteString(h.DelimPrefix)
			r.b.WriteString(h.Delim)
			r.b.WriteByte('\n')
		}
		pending = nil
	}
	comment := func(text string) {
		if text == EmptyComment {
			text = "" // a comment without text: "#" alone
		}
		r.comments = append(r.comments, Comment{Off: r.b.Len(), Text: text})
		r.b.WriteString("#" + text)
	}
	var prev *Tok
	gap := func(i int, next *Tok) {
		b := Boundary{Stream: s, Index: i, Seq: r.seq, Prev: prev, Next: next, Top: top, AtEnd: next == nil}
		r.seq++
		b.Need = need(prev, next, s.Open)
		if next == nil && prev != nil && s.Close == ")" && prev.Kind != KNewline && strings.HasSuffix(prev.last(), "$") {
			b.Need = ""
		}
		b.Glue = next != nil && next.Glue
		b.Linebreak = prev != nil && prev.LinebreakAfter
		if prev == nil && !top {
			b.Linebreak = true // a compound list starts with "linebreak"
		}
		// (inside backquotes a comment ends at the closing backquote)
		b.BeforeNewline = next != nil && next.Kind == KNewline || next == nil && top || next == nil && s.Open == "`" && prev != nil
		if next == nil && top && prev != nil && prev.Kind == KNewline {
			// the newline that ends the complete command: whatever follows
			// belongs to the next command
			b.Glue = true
		}
		if b.Glue {
			if prev != nil && prev.Kind == KIONum && next != nil {
				b.ContOnly = true
				if r.lay.Gap(b).Cont {
					r.b.WriteString("\\\n")
				}
			}
			return
		}
		g := r.lay.Gap(b)
		// newlines first: they end the previous line
		if b.Linebreak && g.Newlines > 0 {
			for k := 0; k < g.Newlines; k++ {
				if k < len(g.NLComments) && g.NLComments[k] != "" {
					if r.b.Len() > 0 && !strings.HasSuffix(r.b.String(), "\n") {
						r.b.WriteByte(' ')
					}
					comment(g.NLComments[k])
				}
				r.b.WriteByte('\n')
				flush()
			}
			// after a newline no separator is needed
			if g.Blanks != "" && g.Blanks != b.Need {
				r.b.WriteString(g.Blanks)
			}
			return
		}
		blanks := g.Blanks
		if len(blanks) < len(b.Need) {
			blanks = b.Need
		}
		if g.Cont && RenderExclude["cont_before_linebreak_newline"] && next != nil && next.Kind == KNewline && prev != nil && prev.LinebreakAfter {
			// known finding: a line continuation directly before a newline the
			// grammar's "linebreak" would skip
			g.Cont = false
			RenderExcluded["cont_before_linebreak_newline"]++
		}
		if g.Cont {
			// the blank a boundary needs may stand on either side
			before := g.Blanks
			if len(before)+len(g.After) < len(b.Need) {
				before = b.Need
			}
			r.b.WriteString(before + "\\\n" + g.After)
		} else {
			r.b.WriteString(blanks)
		}
		if g.Comment != "" && b.BeforeNewline {
			if r.b.Len() > 0 && !strings.HasSuffix(r.b.String(), " ") && !strings.HasSuffix(r.b.String(), "\t") && !strings.HasSuffix(r.b.String(), "\n") {
				r.b.WriteByte(' ')
			}
			comment(g.Comment)
		}
	}
	for i, t := range s.Toks {
		gap(i, t)
		r.starts = append(r.starts, r.b.Len())
		if t.Kind == KNewline {
			r.b.WriteByte('\n')
			flush()
		} else {
			for _, p := range t.Pieces {
				if p.Sub != nil {
					r.stream(p.Sub, false)
				} else {
					r.b.WriteString(p.Text)
				}
			}
			if t.HD != nil {
				pending = append(pending, t.HD)
			}
		}
		prev = t
	}
	gap(len(s.Toks), nil)
	if len(pending) > 0 {
		// a here-document needs a newline before the stream ends
		r.b.WriteByte('\n')
		flush()
	}
	r.b.WriteString(s.Close)
}

// RuneOffset converts a byte offset of src into a rune offset.
func RuneOffset(src string, off int) int { return utf8.RuneCountInString(src[:off]) }

// Walk calls fn for every token of the stream, nested streams included,
// in the order the renderer writes them.
func (s *Stream) Walk(fn func(st *Stream, i int, t *Tok)) {
	for i, t := range s.Toks {
		fn(s, i, t)
		for _, p := range t.Pieces {
			if p.Sub != nil {
				p.Sub.Walk(fn)
			}
		}
	}
}

// Clone copies the stream deeply (tokens and nested streams; HD records are
// shared, they are immutable).
func (s *Stream) Clone() *Stream {
	c := &Stream{Open: s.Open, Close: s.Close}
	for _, t := range s.Toks {
		nt := *t
		nt.Pieces = make([]Piece, len(t.Pieces))
		for i, p := range t.Pieces {
			nt.Pieces[i] = p
			if p.Sub != nil {
				nt.Pieces[i].Sub = p.Sub.Clone()
			}
		}
		c.Toks = append(c.Toks, &nt)
	}
	return c
}
