package gen

import (
	"fmt"
	"strings"

	"verif/skel"
)

// Chooser supplies every random decision. Value 0 is always the simplest
// choice, so that shrinking converges on small programs and a scripted
// chooser can default to it.
type Chooser interface {
	Intn(n int, label string) int
}

// Opts bounds and steers generation.
type Opts struct {
	MaxDepth int // nesting depth of compound commands / substitutions
	Budget   int // rough bound on the number of commands
	// Exclude switches generator features off (known findings, or features a
	// particular property does not want).
	Exclude map[string]bool
	// NoHeredoc / NoSubst / NoComments narrow the domain for specific checks.
	NoHeredoc bool
	NoSubst   bool
	// OneLine forbids newline tokens (single-line commands).
	OneLine bool
	// MoreHeredocs makes every second redirection a here-document.
	MoreHeredocs bool
	// SpacedSubstDelim: 1 = some here-document delimiters are double-quoted
	// words with a backquote substitution that holds two blanks; -1 = they
	// would be, but are excluded (counted); 0 = never.
	SpacedSubstDelim int
}

// Program is one generated complete command.
type Program struct {
	Stream *Stream
	// Skel is the Exact skeleton of the command ParseCommands has to return.
	Skel string
	// Feat counts the constructs that were generated ("kind:if",
	// "pair:if>while", "word:dquote", "reserved_as_word", ...).
	Feat map[string]int
	HDs  []*HD // here-documents in source order
}

type g struct {
	ch     Chooser
	o      Opts
	s      *Stream
	budget int
	depth  int
	paren  int // > 0 inside "( )" or "$( )": "((" is not the arithmetic command there
	bq     bool
	feat   map[string]int
	hds    []*HD
	hdn    int
	stack  []string // kinds of the enclosing compound commands
	nohd   int      // > 0 where a here-document cannot be completed
}

func (g *g) f(name string) { g.feat[name]++ }

func (g *g) ex(name string) bool { return g.o.Exclude[name] }

func (g *g) pick(label string, opts ...string) string { return opts[g.ch.Intn(len(opts), label)] }

func (g *g) chance(label string, n int) bool { return g.ch.Intn(n, label) == n-1 }

// Complete generates one complete command (what one ParseCommands call
// consumes): and-or lists separated by ";" / "&", optionally terminated by one.
func Complete(ch Chooser, o Opts) *Program {
	if o.MaxDepth == 0 {
		o.MaxDepth = 3
	}
	if o.Budget == 0 {
		o.Budget = 12
	}
	g := &g{ch: ch, o: o, s: &Stream{}, budget: o.Budget, feat: map[string]int{}}
	n := 1 + []int{0, 0, 0, 1, 1, 2}[g.ch.Intn(6, "top_n")]
	var aos []aoM
	for i := 0; i < n; i++ {
		ao := g.andOr()
		if i < n-1 {
			ao.sep = g.pick("top_sep", ";", "&")
			g.op(ao.sep)
		} else {
			ao.sep = g.pick("top_last_sep", "", ";", "&")
			if ao.sep != "" {
				g.op(ao.sep)
			}
		}
		aos = append(aos, ao)
	}
	// the command line ends with a newline; without here-documents the input
	// may also end right there
	if len(g.hds) > 0 || g.ch.Intn(4, "final_newline") != 3 {
		g.s.add(&Tok{Kind: KNewline})
	}
	var sk string
	if len(aos) > 1 {
		var l []string
		for _, a := range aos {
			l = append(l, a.skel())
		}
		sk = skel.List(l)
	} else {
		sk = aos[0].collapsed()
	}
	return &Program{Stream: g.s, Skel: sk, Feat: g.feat, HDs: g.hds}
}

// ---- and-or lists, pipelines ------------------------------------------------

type pipeM struct {
	bang bool
	cmds []string
	// endsCloser: the last command ends with the closing token of a compound
	// command (no redirection after it)
	endsCloser bool
}

func (p pipeM) skel() string { return skel.Pipeline(p.bang, p.cmds[0], p.cmds[1:]) }

type aoM struct {
	first pipeM
	rest  []skel.AO
	sep   string
	last  pipeM
}

func (a aoM) skel() string { return skel.AndOr(a.first.skel(), a.rest, a.sep) }

// collapsed applies go.sh's documented singleton collapse.
func (a aoM) collapsed() string {
	switch {
	case len(a.rest) != 0 || a.sep != "":
		return a.skel()
	case a.first.bang || len(a.first.cmds) > 1:
		return a.first.skel()
	}
	return a.first.cmds[0]
}

func (g *g) op(s string) *Tok {
	t := g.s.add(text(KOp, s))
	t.Depth = len(g.stack)
	return t
}

func (g *g) res(s string) *Tok {
	t := g.s.add(text(KReserved, s))
	t.Depth = len(g.stack)
	return t
}

func (g *g) nl() *Tok {
	t := g.s.add(&Tok{Kind: KNewline, LinebreakAfter: true, Depth: len(g.stack)})
	return t
}

// maybeNL emits a newline token where the grammar has "linebreak".
func (g *g) maybeNL(label string) {
	if g.o.OneLine {
		return
	}
	if g.chance(label, 6) {
		g.nl()
	}
}

func (g *g) andOr() aoM {
	var a aoM
	a.first = g.pipeline()
	a.last = a.first
	n := []int{0, 0, 0, 0, 1, 2}[g.ch.Intn(6, "andor_n")]
	for i := 0; i < n; i++ {
		op := g.pick("andor_op", "&&", "||")
		g.op(op).LinebreakAfter = true
		g.maybeNL("andor_nl")
		p := g.pipeline()
		a.rest = append(a.rest, skel.AO{Op: op, Pipe: p.skel()})
		a.last = p
		g.f("op:" + op)
	}
	return a
}

func (g *g) pipeline() pipeM {
	var p pipeM
	if g.chance("bang", 8) {
		p.bang = true
		g.res("!")
		g.f("op:!")
	}
	n := []int{0, 0, 0, 0, 1, 2}[g.ch.Intn(6, "pipe_n")]
	for i := 0; i <= n; i++ {
		if i > 0 {
			g.op("|").LinebreakAfter = true
			g.maybeNL("pipe_nl")
			g.f("op:|")
		}
		sk, closer := g.command()
		p.cmds = append(p.cmds, sk)
		p.endsCloser = closer
	}
	return p
}

// ---- commands -----------------------------------------------------------------

var kinds = []string{"simple", "subshell", "group", "if", "while", "until", "for", "case", "funcdef", "arith"}

// command emits one command and returns its skeleton and whether it ends
// with the closing token of a compound command.
func (g *g) command() (string, bool) {
	g.budget--
	kind := "simple"
	if g.depth < g.o.MaxDepth && g.budget > 0 {
		// simple commands are as frequent as all compound ones together
		k := g.ch.Intn(2*(len(kinds)-1), "cmdkind")
		if k >= len(kinds)-1 {
			kind = kinds[k-(len(kinds)-1)+1]
		}
	}
	if kind == "arith" && (g.paren > 0 && g.ex("arith_cmd_in_parens") || g.bq) {
		if g.paren > 0 {
			g.f("excluded:arith_cmd_in_parens")
		}
		kind = "simple"
	}
	if kind == "funcdef" && g.bq {
		kind = "simple"
	}
	g.f("kind:" + kind)
	if len(g.stack) > 0 {
		g.f("pair:" + g.stack[len(g.stack)-1] + ">" + kind)
	}
	if kind == "simple" {
		return g.simple(), false
	}
	g.depth++
	g.stack = append(g.stack, kind)
	var sk string
	switch kind {
	case "funcdef":
		var closer bool
		sk, closer = g.funcDef()
		g.stack = g.stack[:len(g.stack)-1]
		g.depth--
		// the redirections belong to the body
		return skel.Cmd(sk, nil), closer
	default:
		sk = g.compound(kind)
	}
	g.stack = g.stack[:len(g.stack)-1]
	g.depth--
	redirs := g.redirs("compound_redirs")
	return skel.Cmd(sk, redirs), len(redirs) == 0
}

func (g *g) compound(kind string) string {
	switch kind {
	case "subshell":
		g.op("(").LinebreakAfter = true
		g.paren++
		l := g.compoundList(false, "subshell")
		g.paren--
		g.op(")")
		return skel.Subshell(l)
	case "group":
		g.res("{").LinebreakAfter = true
		l := g.compoundList(true, "group")
		g.res("}")
		return skel.Group(l)
	case "arith":
		g.op("((")
		parts := g.arithBody()
		g.op("))").Glue = true
		return skel.ArithEval(parts)
	case "if":
		g.res("if").LinebreakAfter = true
		cond := g.compoundList(true, "if_cond")
		g.res("then").LinebreakAfter = true
		list := g.compoundList(true, "if_then")
		var elses []string
		for n := []int{0, 0, 1, 2}[g.ch.Intn(4, "elif_n")]; n > 0; n-- {
			g.res("elif").LinebreakAfter = true
			c := g.compoundList(true, "elif_cond")
			g.res("then").LinebreakAfter = true
			l := g.compoundList(true, "elif_then")
			elses = append(elses, skel.Elif(c, l))
			g.f("elif")
		}
		if g.chance("else", 3) {
			g.res("else").LinebreakAfter = true
			elses = append(elses, skel.Else(g.compoundList(true, "else")))
			g.f("else")
		}
		g.res("fi")
		return skel.If(cond, list, elses)
	case "while", "until":
		g.res(kind).LinebreakAfter = true
		cond := g.compoundList(true, "loop_cond")
		g.res("do").LinebreakAfter = true
		list := g.compoundList(true, "loop_body")
		g.res("done")
		return skel.While(kind == "until", cond, list)
	case "for":
		return g.forClause()
	case "case":
		return g.caseClause()
	}
	panic("gen: unknown compound kind " + kind)
}

func (g *g) funcDef() (string, bool) {
	// (names that only begin with, end in or contain the name of a special built-in utility are ordinary names)
	name := g.pick("fname", "f", "foo", "_f1", "é", "fn2", "setup", "exit_handler", "shift2", "timestamp", "evaluate", "breakpoint", "returns", "unset_all", "execute", "trap1", "reset", "do_exit", "export_", "readonly1", "continued", "dot", "colon", "sets", "xbreak", "e", "se", "times2")
	t := g.s.add(text(KWord, name))
	t.CmdPos = true
	t.Depth = len(g.stack)
	g.op("(")
	g.op(")").LinebreakAfter = true
	g.maybeNL("func_nl")
	kinds := []string{"group", "subshell", "if", "while", "until", "for", "case", "arith"}
	k := kinds[g.ch.Intn(len(kinds), "fbody")]
	if k == "arith" && g.paren > 0 && g.ex("arith_cmd_in_parens") {
		k = "group"
	}
	g.stack = append(g.stack, k)
	g.f("kind:" + k)
	g.f("pair:funcdef>" + k)
	body := g.compound(k)
	g.stack = g.stack[:len(g.stack)-1]
	redirs := g.redirs("func_redirs")
	return skel.FuncDef(name, skel.Cmd(body, redirs)), len(redirs) == 0
}

// compoundList emits "linebreak term [sep]" and returns the skeletons of the
// resulting []ast.Command. reservedCloser: the token that follows is a
// reserved word, so the last command needs a separator unless it ends with a
// closing token itself.
func (g *g) compoundList(reservedCloser bool, ctx string) []string {
	g.maybeNL("cl_lead_nl")
	n := 1 + []int{0, 0, 0, 1, 1, 2}[g.ch.Intn(6, "cl_n")]
	if g.budget <= 0 {
		n = 1
	}
	var out []string
	var group []aoM
	flush := func() {
		if len(group) == 0 {
			return
		}
		if len(group) == 1 {
			out = append(out, group[0].collapsed())
		} else {
			var l []string
			for _, a := range group {
				l = append(l, a.skel())
			}
			out = append(out, skel.List(l))
		}
		group = nil
	}
	oneLine := g.o.OneLine
	for i := 0; i < n; i++ {
		ao := g.andOr()
		last := i == n-1
		// terminator: 0 = ";", 1 = newline, 2 = "&", 3 = ";" + newline, 4 = "&" + newline, 5 = none (last only)
		var term int
		if last {
			term = []int{0, 1, 5, 2, 3, 4}[g.ch.Intn(6, "cl_last_term")]
			if term == 5 && reservedCloser && !ao.last.endsCloser {
				term = 0
			}
			if term == 5 && reservedCloser && ao.last.endsCloser {
				g.f("closer_adjacent:" + ctx)
			}
		} else {
			term = []int{0, 1, 2, 3, 4}[g.ch.Intn(5, "cl_term")]
		}
		if oneLine {
			term = map[int]int{0: 0, 1: 0, 2: 2, 3: 0, 4: 2, 5: 5}[term]
		}
		switch term {
		case 0, 3:
			ao.sep = ";"
			t := g.op(";")
			t.LinebreakAfter = true
			t.SemiNL = true
		case 2, 4:
			ao.sep = "&"
			g.op("&").LinebreakAfter = true
		}
		newline := term == 1 || term == 3 || term == 4
		if newline {
			g.nl()
		}
		group = append(group, ao)
		if ao.sep == "" && newline {
			flush()
		}
	}
	flush()
	return out
}

func (g *g) forClause() string {
	g.res("for")
	name := g.pick("forname", "i", "x", "_v", "é", "n1")
	g.s.add(text(KWord, name)).Depth = len(g.stack)
	form := g.ch.Intn(6, "for_form")
	if g.o.OneLine {
		form = map[int]int{0: 0, 1: 1, 2: 1, 3: 3, 4: 4, 5: 3}[form]
	}
	in, semi := false, false
	var items []string
	switch form {
	case 0: // for x do
	case 1: // for x; do
		semi = true
		t := g.op(";")
		t.LinebreakAfter = true
		t.SemiNL = true // sequential_sep: a newline does as well
		g.maybeNL("for_nl")
	case 2: // for x <newline> do
		g.nl()
	default: // for x [linebreak] in words ; / newline do
		if form == 5 {
			g.nl()
		}
		in = true
		g.res("in")
		k := []int{1, 2, 0, 3}[g.ch.Intn(4, "for_items")]
		for i := 0; i < k; i++ {
			items = append(items, g.word("for_item", false))
		}
		if !g.o.OneLine && g.chance("for_sep_nl", 3) {
			g.nl()
		} else {
			semi = true
			t := g.op(";")
			t.LinebreakAfter = true
			t.SemiNL = true
			g.maybeNL("for_nl")
		}
	}
	g.res("do").LinebreakAfter = true
	list := g.compoundList(true, "for_body")
	g.res("done")
	return skel.For(name, in, items, semi, list)
}

func (g *g) caseClause() string {
	g.res("case")
	w := g.word("case_word", false)
	g.maybeNL("case_nl1")
	g.res("in").LinebreakAfter = true
	g.maybeNL("case_nl2")
	n := []int{1, 2, 0, 3}[g.ch.Intn(4, "case_items")]
	var items []string
	for i := 0; i < n; i++ {
		lp := g.chance("case_lparen", 4)
		if lp {
			g.op("(")
		}
		np := 1 + []int{0, 0, 1, 2}[g.ch.Intn(4, "case_npat")]
		var pats []string
		for j := 0; j < np; j++ {
			if j > 0 {
				g.op("|")
			}
			if (j > 0 || lp) && g.chance("esac_pat", 8) {
				// "esac" is an ordinary pattern behind "(" and behind "|"
				g.s.add(&Tok{Kind: KWord, Depth: len(g.stack), Pieces: []Piece{{Text: "esac"}}})
				pats = append(pats, skel.Word([]string{skel.Lit("esac")}))
				g.f("reserved_as_word")
				g.f("esac_as_pattern")
				continue
			}
			pats = append(pats, g.word("case_pat", false))
		}
		g.op(")").LinebreakAfter = true
		last := i == n-1
		brk := !last || !g.chance("case_nobreak", 3)
		var list []string
		empty := g.chance("case_empty", 5)
		if !empty {
			// ";;" is an operator: no separator needed; "esac" is a reserved word
			list = g.compoundList(!brk, "case_body")
		} else {
			g.maybeNL("case_empty_nl")
		}
		if brk {
			g.op(";;").LinebreakAfter = true
			g.maybeNL("case_nl3")
		}
		items = append(items, skel.CaseItem(lp, pats, list, brk))
	}
	g.res("esac")
	return skel.Case(w, items)
}

// ---- simple commands ------------------------------------------------------------

func (g *g) simple() string {
	var assigns, args, redirs []string
	np := []int{0, 0, 0, 1, 1, 2}[g.ch.Intn(6, "prefix_n")]
	for i := 0; i < np; i++ {
		if g.ch.Intn(2, "prefix_kind") == 0 {
			assigns = append(assigns, g.assign())
		} else {
			redirs = append(redirs, g.redir())
		}
	}
	if np == 0 || !g.chance("no_cmd_word", 4) {
		prefix := np > 0
		args = append(args, g.cmdWord(prefix))
		ns := []int{0, 1, 1, 2, 3, 0}[g.ch.Intn(6, "suffix_n")]
		for i := 0; i < ns; i++ {
			if g.ch.Intn(4, "suffix_kind") != 3 {
				args = append(args, g.word("arg", true))
			} else {
				redirs = append(redirs, g.redir())
			}
		}
	}
	return skel.Cmd(skel.Simple(assigns, args), redirs)
}

var varNames = []string{"x", "foo", "_v", "é", "x1", "PATH"}

func (g *g) assign() string {
	name := g.pick("asg_name", varNames...)
	t := &Tok{Kind: KWord, Depth: len(g.stack)}
	t.Pieces = append(t.Pieces, Piece{Text: name + "="})
	val := skel.Word(nil)
	if !g.chance("asg_empty", 4) {
		var ps []string
		ps, t.Pieces = g.wordParts(t.Pieces, "asg", false, true)
		val = skel.Word(ps)
	}
	g.s.add(t)
	g.f("assign")
	return skel.Assign(name, val)
}

// cmdWord emits the command name of a simple command.
func (g *g) cmdWord(afterPrefix bool) string {
	t := &Tok{Kind: KWord, CmdPos: true, Depth: len(g.stack)}
	var ps []string
	switch g.ch.Intn(9, "cmdword") {
	case 8:
		// a word that only begins with the letters of a reserved word
		w := g.pick("reserved_head", "if", "then", "else", "elif", "fi", "do", "done", "case", "esac", "for", "in", "while", "until", "{", "}", "!")
		t.Pieces = []Piece{{Text: w}}
		ps = []string{skel.Lit(w)}
		ps, t.Pieces = g.reservedTail(ps, t.Pieces)
		g.f("reserved_word_letters_then_another_part")
		t.CmdPos = false
	case 0, 1, 2, 3, 4:
		w := g.pick("cmdname", "a", "cmd", "echo", "é", "x1", "ls", "true", "go")
		t.Pieces = []Piece{{Text: w}}
		ps = []string{skel.Lit(w)}
	case 5:
		// a reserved word that is an ordinary word here because it is quoted
		w := g.pick("quoted_reserved", `\if`, `'then'`, `"do"`, `e\sac`, `f"i"`)
		t.Pieces = []Piece{{Text: w}}
		ps = quotedSkel(w)
		g.f("quoted_reserved_word")
		t.CmdPos = false
	case 6:
		if afterPrefix && !g.ex("reserved_after_prefix") {
			// after an assignment or redirection a reserved word is an ordinary word
			w := g.pick("reserved_after_prefix", "if", "then", "done", "{", "}", "!", "in", "esac", "fi", "do", "for", "case", "while")
			t.Pieces = []Piece{{Text: w}}
			ps = []string{skel.Lit(w)}
			g.f("reserved_as_word")
			// still the command word: eligible for alias substitution
			break
		}
		if afterPrefix {
			g.f("excluded:reserved_after_prefix")
		}
		fallthrough
	default:
		ps, t.Pieces = g.wordParts(nil, "cmdw", true, false)
		// a word that is one unquoted literal is eligible for alias substitution
		t.CmdPos = len(ps) == 1 && strings.HasPrefix(ps[0], "L\"")
	}
	g.s.add(t)
	return skel.Word(ps)
}

// reservedTail appends a part that is not an unquoted literal.
func (g *g) reservedTail(ps []string, pieces []Piece) ([]string, []Piece) {
	switch g.ch.Intn(5, "reserved_tail") {
	case 0:
		pieces = append(pieces, Piece{Text: "$x"})
		ps = append(ps, skel.Param(false, "x", "", skel.Nil))
	case 1:
		pieces = append(pieces, Piece{Text: `"$y"`})
		ps = append(ps, skel.Quote(`"`, []string{skel.Param(false, "y", "", skel.Nil)}))
	case 2:
		pieces = append(pieces, Piece{Text: "''"})
		ps = append(ps, skel.Quote("'", []string{skel.Lit("")}))
	case 3:
		pieces = append(pieces, Piece{Text: `\a`})
		ps = append(ps, skel.Quote(`\`, []string{skel.Lit("a")}))
	case 4:
		pieces = append(pieces, Piece{Text: "${z}"})
		ps = append(ps, skel.Param(true, "z", "", skel.Nil))
	}
	return ps, pieces
}

// quotedSkel gives the skeleton of the few fixed quoted spellings above.
func quotedSkel(w string) []string {
	switch w {
	case `\if`:
		return []string{skel.Quote(`\`, []string{skel.Lit("i")}), skel.Lit("f")}
	case `'then'`:
		return []string{skel.Quote(`'`, []string{skel.Lit("then")})}
	case `"do"`:
		return []string{skel.Quote(`"`, []string{skel.Lit("do")})}
	case `e\sac`:
		return []string{skel.Lit("e"), skel.Quote(`\`, []string{skel.Lit("s")}), skel.Lit("ac")}
	case `f"i"`:
		return []string{skel.Lit("f"), skel.Quote(`"`, []string{skel.Lit("i")})}
	}
	panic("quotedSkel")
}

// word emits an ordinary word token and returns its skeleton. arg: the word
// is an argument (reserved words and assignment look-alikes are welcome).
func (g *g) word(label string, arg bool) string {
	t := &Tok{Kind: KWord, Depth: len(g.stack)}
	var ps []string
	if arg && g.chance("reserved_arg", 8) {
		w := g.pick("reserved_arg_w", "if", "then", "else", "elif", "fi", "do", "done", "case", "esac", "for", "in", "while", "until", "{", "}", "!", "x=1")
		t.Pieces = []Piece{{Text: w}}
		ps = []string{skel.Lit(w)}
		g.f("reserved_as_word")
	} else if !arg && g.chance("reserved_other", 10) && label != "case_pat" && label != "heredoc" {
		// for items and the case word may be reserved words as well
		w := g.pick("reserved_other_w", "if", "do", "done", "in", "fi", "{", "!")
		t.Pieces = []Piece{{Text: w}}
		ps = []string{skel.Lit(w)}
		g.f("reserved_as_word")
	} else if label == "case_pat" && g.chance("reserved_pat", 8) {
		w := g.pick("reserved_pat_w", "if", "do", "done", "in", "fi", "then", "for")
		t.Pieces = []Piece{{Text: w}}
		ps = []string{skel.Lit(w)}
		g.f("reserved_as_word")
		if g.chance("reserved_pat_tail", 3) {
			if g.chance("reserved_pat_esac", 3) {
				t.Pieces[0].Text, ps[0] = "esac", skel.Lit("esac")
			}
			ps, t.Pieces = g.reservedTail(ps, t.Pieces)
			g.f("reserved_word_letters_then_another_part")
		}
	} else {
		ps, t.Pieces = g.wordParts(nil, label, false, false)
	}
	g.s.add(t)
	return skel.Word(ps)
}

var litPool = []string{"a", "b", "foo", "-l", "1", "é", "a.b", "/dev/null", "*", "a?", "[ab]", "~", "%", "a,b", "+x", "x:y", "日本", "--", "0", "42", "a=b", "@", "^",
	// characters that are ordinary for the shell but special for someone: U+0080, a combining mark, a no-break
	// space, carriage return, form feed, U+FFFD, a character beyond the BMP, a non-ASCII digit, a byte order mark
	"a\u0080b", "e\u0301x", "\u00a0", "a\rb", "\f", "\uFFFD", "\U0001F600", "x\u0663", "\uFEFFx", "c\r",
	// a literal that ends in "=" (in the value of an assignment: "x=k=$v")
	"k=", "--key="}

// wordParts generates the parts of a word, appending their text to pieces.
// first: the word is a command name (no reserved word, no assignment shape,
// not all digits). value: the value of an assignment.
func (g *g) wordParts(pieces []Piece, label string, first, value bool) ([]string, []Piece) {
	n := 1 + []int{0, 0, 0, 1, 1, 2}[g.ch.Intn(6, "nparts")]
	var ps []string
	lastLit := false    // previous part was an unquoted literal (adjacent literals would merge)
	openName := false   // previous part was an unbraced $name: a following name character would extend it
	openDollar := false // previous literal ends in "$"
	add := func(txt string) { pieces = append(pieces, Piece{Text: txt}) }
	for i := 0; i < n; i++ {
		k := g.ch.Intn(13, "partkind")
		if k == 12 {
			k = 10
		} else if k == 10 || k == 11 {
			k = 0
		}
		if g.o.NoSubst && (k == 7 || k == 8 || k == 9) {
			k = 0
		}
		if g.bq && (k == 8 || k == 3) {
			k = 0 // no backquotes or backslashes inside a backquote substitution
		}
		switch k {
		default: // literal
			if lastLit {
				k = 1
			} else {
				w := g.pick("lit", litPool...)
				if first && i == 0 {
					w = g.pick("lit_first", "a", "foo", "é", "x1", "ls", "-l", "a.b", "/bin/ls", "[")
				}
				if openName && startsNameChar(w) {
					w = "-" + w
				}
				add(w)
				ps = append(ps, skel.Lit(w))
				lastLit, openName = true, false
				openDollar = false
				g.f("word:lit")
				continue
			}
			fallthrough
		case 1: // single quotes
			w := g.pick("sq", "", "a b", "$x", "é", `a"b`, "#", "a\nb", `\`, "*", ";|&", "`c`", "\uFFFD", "a\r", "e\u0301 \u00a0", "\U0001F600\u0080")
			if g.bq && strings.ContainsAny(w, "`\\") {
				w = "q"
			}
			add("'" + w + "'")
			ps = append(ps, skel.Quote("'", []string{skel.Lit(w)}))
			g.f("word:squote")
		case 2: // double quotes
			txt, sk := g.dquote()
			add(txt)
			ps = append(ps, sk)
			g.f("word:dquote")
		case 3: // backslash
			c := g.pick("bs", "a", " ", "$", `\`, "'", `"`, "#", ";", "é", "*", "&", "(", "`", "日", "\t", "}", "\uFFFD", "\r", "\U0001F600", "\u00a0")
			add(`\` + c)
			ps = append(ps, skel.Quote(`\`, []string{skel.Lit(c)}))
			g.f("word:backslash")
		case 4, 5: // $name and friends
			nm := g.pick("pname", "x", "foo", "_v", "é", "1", "9", "@", "*", "#", "?", "-", "$", "!", "0")
			add("$" + nm)
			ps = append(ps, skel.Param(false, nm, "", skel.Nil))
			lastLit = false
			openName = isNameStart(nm)
			openDollar = false
			g.f("word:param")
			continue
		case 6: // ${...}
			txt, sk := g.bracedParam(false)
			add(txt)
			ps = append(ps, sk)
			g.f("word:braced_param")
		case 7: // $( )
			if g.depth >= g.o.MaxDepth+1 || g.budget <= 0 {
				add("$(c)")
				ps = append(ps, skel.CmdSubst(true, []string{skel.Cmd(skel.Simple(nil, []string{skel.Word([]string{skel.Lit("c")})}), nil)}))
			} else {
				sub, sk := g.cmdSubst()
				pieces = append(pieces, Piece{Sub: sub})
				ps = append(ps, sk)
			}
			g.f("word:cmdsubst")
		case 8: // backquotes
			sub, sk := g.backquote()
			pieces = append(pieces, Piece{Sub: sub})
			ps = append(ps, sk)
			g.f("word:backquote")
		case 9: // $(( ))
			add("$((")
			parts := g.arithText(&pieces)
			add("))")
			ps = append(ps, skel.Arith(parts))
			g.f("word:arith")
		case 10:
			// a "$" that starts no expansion is literal text; it begins a new
			// literal part (the lexer has flushed what came before it)
			if i != n-1 || g.bq {
				w := g.pick("sq2", "q", "a b")
				add("'" + w + "'")
				ps = append(ps, skel.Quote("'", []string{skel.Lit(w)}))
				break
			}
			w := "$" + g.pick("dollar_tail", "", "", ",x", ".", "/", "%", "=1", ":", "+", "^")
			add(w)
			ps = append(ps, skel.Lit(w))
			lastLit, openName = true, false
			g.f("word:literal_dollar")
			continue
		}
		lastLit, openName, openDollar = false, false, false
	}
	_ = openDollar
	_ = value
	return ps, pieces
}

func isNameStart(s string) bool {
	for _, r := range s {
		return r == '_' || r >= 'a' && r <= 'z' || r >= 'A' && r <= 'Z' || r > 127
	}
	return false
}

func startsNameChar(s string) bool {
	for _, r := range s {
		return r == '_' || r >= 'a' && r <= 'z' || r >= 'A' && r <= 'Z' || r >= '0' && r <= '9' || r > 127
	}
	return false
}

// dquote generates a double-quoted string.
func (g *g) dquote() (string, string) {
	var b strings.Builder
	var ps []string
	lit := ""
	flush := func() {
		if lit != "" {
			ps = append(ps, skel.Lit(lit))
			lit = ""
		}
	}
	openName := false
	n := []int{1, 2, 0, 3}[g.ch.Intn(4, "dq_n")]
	for i := 0; i < n; i++ {
		k := g.ch.Intn(8, "dq_kind")
		if g.bq && (k == 1 || k == 2) {
			k = 0
		}
		switch k {
		default:
			w := g.pick("dq_lit", "a b", "é", "'", "#", "*", ";|&", " ", "x=y", "a\nb", "~", "}", "(", "日", "\uFFFD", "\r", "e\u0301", "\u00a0\U0001F600")
			if openName && startsNameChar(w) {
				w = " " + w
			}
			b.WriteString(w)
			lit += w
			openName = false
			continue
		case 1: // escapes that are removed
			c := g.pick("dq_esc", "$", `"`, `\`, "`")
			flush()
			b.WriteString(`\` + c)
			ps = append(ps, skel.Quote(`\`, []string{skel.Lit(c)}))
		case 2: // a backslash that stays
			c := g.pick("dq_bs", "q", " ", "'", "a", "*", "}", ")")
			b.WriteString(`\` + c)
			lit += `\` + c
			openName = false
			continue
		case 3, 4:
			nm := g.pick("pname", "x", "foo", "_v", "é", "1", "@", "*", "#", "?", "-", "$", "!", "0")
			flush()
			b.WriteString("$" + nm)
			ps = append(ps, skel.Param(false, nm, "", skel.Nil))
			openName = isNameStart(nm)
			continue
		case 5:
			txt, sk := g.bracedParam(true)
			flush()
			b.WriteString(txt)
			ps = append(ps, sk)
		case 6:
			flush()
			if g.o.NoSubst {
				b.WriteString("${y}")
				ps = append(ps, skel.Param(true, "y", "", skel.Nil))
				break
			}
			if g.chance("dq_subst_quotes", 3) {
				// the command inside is not double-quoted text: quotes in it quote
				open, cl := "$(", ")"
				if !g.bq && g.chance("dq_subst_bq", 3) {
					open, cl = "`", "`"
				}
				b.WriteString(open + `c ${b:-'e f'} \a` + cl)
				ps = append(ps, skel.CmdSubst(open == "$(", []string{skel.Cmd(skel.Simple(nil, []string{
					skel.Word([]string{skel.Lit("c")}),
					skel.Word([]string{skel.Param(true, "b", ":-", skel.Word([]string{skel.Quote("'", []string{skel.Lit("e f")})}))}),
					skel.Word([]string{skel.Quote(`\`, []string{skel.Lit("a")})})}), nil)}))
				g.f("quotes_inside_a_substitution_inside_double_quotes")
				break
			}
			b.WriteString("$(c d)")
			ps = append(ps, skel.CmdSubst(true, []string{skel.Cmd(skel.Simple(nil, []string{skel.Word([]string{skel.Lit("c")}), skel.Word([]string{skel.Lit("d")})}), nil)}))
		case 7:
			flush()
			b.WriteString("$((1+2))")
			ps = append(ps, skel.Arith([]string{skel.Lit("1+2")}))
		}
		openName = false
	}
	flush()
	return `"` + b.String() + `"`, skel.Quote(`"`, ps)
}

var paramOps = []string{":-", "-", ":=", "=", ":?", "?", ":+", "+", "%", "%%", "#", "##"}

// bracedParam generates "${...}". dq: it stands inside double-quotes, where
// the word of every operator but % %% # ## is double-quoted text as well (a
// single-quote is an ordinary character and a backslash escapes only
// $ ` " \ } and a newline).
func (g *g) bracedParam(dq bool) (string, string) {
	nm := g.pick("bp_name", "x", "foo", "_v", "é", "1", "10", "@", "*", "#", "?", "-", "$", "!", "0")
	switch g.ch.Intn(4, "bp_form") {
	case 0:
		return "${" + nm + "}", skel.Param(true, nm, "", skel.Nil)
	case 1:
		// string length
		return "${#" + nm + "}", skel.Param(true, nm, "#", skel.Nil)
	}
	op := paramOps[g.ch.Intn(len(paramOps), "bp_op")]
	if nm == "#" && (op == "#" || op == "##" || op == "?" || op == "-") {
		nm = "x" // ${##...}, ${#?...}, ${#-...} read differently
	}
	var b strings.Builder
	var ps []string
	lit := ""
	flush := func() {
		if lit != "" {
			ps = append(ps, skel.Lit(lit))
			lit = ""
		}
	}
	openName := false
	dq = dq && !strings.ContainsAny(op, "%#")
	if dq {
		g.f("dquoted_param_word")
	}
	n := []int{1, 0, 2, 3}[g.ch.Intn(4, "bp_n")]
	for i := 0; i < n; i++ {
		k := g.ch.Intn(7, "bp_kind")
		if g.bq && (k == 3 || k == 4) {
			k = 0
		}
		switch k {
		default:
			w := g.pick("bp_lit", "w", "a b", "*", "é", ".", "/", "x=y", "?", "[a-c]", ";", "|", "#", " ", "日", "{", "a{b", "{ ", "(", "<")
			if i == 0 && (op == "%" || op == "#") && (strings.HasPrefix(w, "#") || strings.HasPrefix(w, "%")) {
				w = "w"
			}
			if op == "%" && i == 0 && strings.HasPrefix(w, "%") || op == "#" && i == 0 && strings.HasPrefix(w, "#") {
				w = "w"
			}
			if openName && startsNameChar(w) {
				w = "." + w
			}
			b.WriteString(w)
			lit += w
			openName = false
			continue
		case 1:
			w := g.pick("bp_sq", "q", "a b", "}", "", "$x")
			if dq {
				// the quotes are text, what stands between them is not quoted
				w = g.pick("bp_sq_dq", "q", "a b", `\}`, "", ";|")
				b.WriteString("'")
				lit += "'"
				if w == `\}` {
					flush()
					b.WriteString(w)
					ps = append(ps, skel.Quote(`\`, []string{skel.Lit("}")}))
				} else {
					b.WriteString(w)
					lit += w
				}
				b.WriteString("'")
				lit += "'"
				openName = false
				g.f("literal_squote_in_dquoted_param_word")
				continue
			}
			flush()
			b.WriteString("'" + w + "'")
			ps = append(ps, skel.Quote("'", []string{skel.Lit(w)}))
		case 2:
			flush()
			nm2 := g.pick("bp_inner", "y", "1", "@", "#")
			b.WriteString("$" + nm2)
			ps = append(ps, skel.Param(false, nm2, "", skel.Nil))
			openName = isNameStart(nm2)
			continue
		case 3:
			c := g.pick("bp_bs", "}", `\`, "$", "a", " ")
			if dq && (c == "a" || c == " ") {
				b.WriteString(`\` + c)
				lit += `\` + c
				openName = false
				g.f("literal_backslash_in_dquoted_param_word")
				continue
			}
			flush()
			b.WriteString(`\` + c)
			ps = append(ps, skel.Quote(`\`, []string{skel.Lit(c)}))
		case 4:
			flush()
			b.WriteString("`c d`")
			ps = append(ps, skel.CmdSubst(false, []string{skel.Cmd(skel.Simple(nil, []string{skel.Word([]string{skel.Lit("c")}), skel.Word([]string{skel.Lit("d")})}), nil)}))
		case 5:
			flush()
			if g.chance("bp_inner_dq_pattern", 2) {
				// a pattern operator inside double-quotes inside the word
				pop := g.pick("bp_inner_pop", "#", "%", "##", "%%")
				b.WriteString(`"${y` + pop + `c*}"`)
				ps = append(ps, skel.Quote(`"`, []string{skel.Param(true, "y", pop, skel.Word([]string{skel.Lit("c*")}))}))
				g.f("pattern_operator_inside_dquotes_inside_param_word")
				break
			}
			b.WriteString(`"$y z"`)
			ps = append(ps, skel.Quote(`"`, []string{skel.Param(false, "y", "", skel.Nil), skel.Lit(" z")}))
		case 6:
			flush()
			b.WriteString("${z:-1}")
			ps = append(ps, skel.Param(true, "z", ":-", skel.Word([]string{skel.Lit("1")})))
		}
		openName = false
	}
	flush()
	if ps == nil {
		ps = []string{}
	}
	return "${" + nm + op + b.String() + "}", skel.Param(true, nm, op, skel.Word(ps))
}

// cmdSubst generates "$( compound_list )".
func (g *g) cmdSubst() (*Stream, string) {
	outer := g.s
	sub := &Stream{Open: "$(", Close: ")"}
	g.s = sub
	g.depth++
	g.paren++
	savedStack := g.stack
	g.stack = append(append([]string{}, g.stack...), "cmdsubst")
	l := g.compoundList(false, "cmdsubst")
	g.stack = savedStack
	g.paren--
	g.depth--
	g.s = outer
	return sub, skel.CmdSubst(true, l)
}

// backquote generates "` ... `" with a restricted body (no nested
// backquotes, no backslashes, no here-documents).
func (g *g) backquote() (*Stream, string) {
	outer := g.s
	sub := &Stream{Open: "`", Close: "`"}
	g.s = sub
	saveBq, saveDepth := g.bq, g.depth
	g.bq = true
	g.depth = g.o.MaxDepth // simple commands only
	g.nohd++
	savedStack := g.stack
	g.stack = append(append([]string{}, g.stack...), "backquote")
	var p pipeM
	n := g.ch.Intn(3, "bq_pipe")
	if n == 2 {
		n = 0
	}
	for i := 0; i <= n; i++ {
		if i > 0 {
			g.op("|")
		}
		sk, _ := g.command()
		p.cmds = append(p.cmds, sk)
	}
	g.stack = savedStack
	g.nohd--
	g.bq, g.depth = saveBq, saveDepth
	g.s = outer
	a := aoM{first: p}
	return sub, skel.CmdSubst(false, []string{a.collapsed()})
}

// arithBody emits the text between "((" and "))" as one glued token and
// returns the parts of the expression word.
func (g *g) arithBody() []string {
	t := &Tok{Kind: KWord, Glue: true, Depth: len(g.stack)}
	parts := g.arithText(&t.Pieces)
	g.s.add(t)
	// "))" is glued to the expression as well
	return parts
}

// arithText generates an arithmetic expression: chunks separated by blanks;
// each chunk becomes one or more adjacent word parts.
func (g *g) arithText(pieces *[]Piece) []string {
	var b strings.Builder
	var ps []string
	n := 1 + g.ch.Intn(4, "arith_n")
	if g.chance("arith_lead_blank", 4) {
		b.WriteString(" ")
	}
	for i := 0; i < n; i++ {
		if i > 0 {
			b.WriteString(g.pick("arith_gap", " ", "  ", "\t", " ", "\n", "\n ", " \n  ", "\n\t"))
		}
		switch g.ch.Intn(10, "arith_chunk") {
		case 9:
			// a backquote substitution directly behind and in front of other text
			if g.bq || g.o.NoSubst {
				b.WriteString("1")
				ps = append(ps, skel.Lit("1"))
				break
			}
			pre := g.pick("arith_bq_pre", "1+", "x=", "", "(")
			post := g.pick("arith_bq_post", "", "*2", "", ")")
			if pre == "(" || post == ")" {
				pre, post = "(", ")"
			}
			b.WriteString(pre + "`c`" + post)
			if pre != "" {
				ps = append(ps, skel.Lit(pre))
			}
			ps = append(ps, skel.CmdSubst(false, []string{skel.Cmd(skel.Simple(nil, []string{skel.Word([]string{skel.Lit("c")})}), nil)}))
			if post != "" {
				ps = append(ps, skel.Lit(post))
			}
			g.f("arith_backquote_glued")
		case 7:
			// quotes, empty ones included, directly next to other parts
			pre := g.pick("arith_q_pre", "", "", "1+", "x")
			if pre != "" {
				b.WriteString(pre)
				ps = append(ps, skel.Lit(pre))
			}
			switch g.ch.Intn(5, "arith_q") {
			case 0:
				b.WriteString(`""`)
				ps = append(ps, skel.Quote(`"`, nil))
			case 1:
				b.WriteString("''")
				ps = append(ps, skel.Quote("'", []string{skel.Lit("")}))
			case 2:
				b.WriteString(`"2"`)
				ps = append(ps, skel.Quote(`"`, []string{skel.Lit("2")}))
			case 3:
				b.WriteString("'3  4'")
				ps = append(ps, skel.Quote("'", []string{skel.Lit("3  4")}))
			case 4:
				b.WriteString(`"$x"`)
				ps = append(ps, skel.Quote(`"`, []string{skel.Param(false, "x", "", skel.Nil)}))
			}
			post := g.pick("arith_q_post", "", "+1", "-1", "*y")
			if post != "" {
				b.WriteString(post)
				ps = append(ps, skel.Lit(post))
			}
			g.f("arith_quote")
		case 8:
			// the same directly in front of an expansion
			b.WriteString(`""$x`)
			ps = append(ps, skel.Quote(`"`, nil), skel.Param(false, "x", "", skel.Nil))
			g.f("arith_quote")
		default:
			w := g.pick("arith_lit", "1", "x", "+", "1+2", "(1+2)*3", "x<<2", "y=5", "x>1", "a&&b", "-", "0x1F", "!x", "(x)", "x?1:2", "é", "日本+1", "16#ff", "2#101+1", "x#")
			b.WriteString(w)
			ps = append(ps, skel.Lit(w))
		case 4:
			nm := g.pick("arith_p", "x", "1", "#")
			b.WriteString("$" + nm)
			ps = append(ps, skel.Param(false, nm, "", skel.Nil))
			if g.chance("arith_p_tail", 2) {
				b.WriteString("+1")
				ps = append(ps, skel.Lit("+1"))
			}
		case 6:
			// a literal directly followed by an expansion
			w := g.pick("arith_lit_glued", "2*", "é+", "日", "x-")
			b.WriteString(w + "$x")
			ps = append(ps, skel.Lit(w), skel.Param(false, "x", "", skel.Nil))
		case 5:
			b.WriteString("${y}*2")
			ps = append(ps, skel.Param(true, "y", "", skel.Nil), skel.Lit("*2"))
		}
	}
	if g.chance("arith_trail_blank", 4) {
		b.WriteString(" ")
	}
	*pieces = append(*pieces, Piece{Text: b.String()})
	g.f("arith_expr")
	return ps
}

// ---- redirections ---------------------------------------------------------------

var redirOps = []string{">", "<", ">>", ">|", "<>", "<&", ">&"}

func (g *g) redirs(label string) []string {
	n := []int{0, 0, 0, 1, 1, 2}[g.ch.Intn(6, label)]
	var out []string
	for i := 0; i < n; i++ {
		out = append(out, g.redir())
	}
	return out
}

func (g *g) redir() string {
	n := ""
	if g.chance("ionum", 4) {
		n = g.pick("ionum_v", "2", "0", "10", "1")
		g.s.add(text(KIONum, n)).Depth = len(g.stack)
	}
	hdOdds := 4
	if g.o.MoreHeredocs {
		hdOdds = 2
	}
	if !g.o.NoHeredoc && g.nohd == 0 && !g.bq && !(g.o.OneLine) && g.chance("heredoc", hdOdds) && len(g.hds) < 4 {
		return g.heredoc(n)
	}
	op := redirOps[g.ch.Intn(len(redirOps), "redir_op")]
	t := g.op(op)
	t.Glue = n != ""
	var w string
	if op == "<&" || op == ">&" {
		tw := g.pick("dup_word", "1", "2", "-", "$fd")
		g.s.add(text(KWord, tw)).Depth = len(g.stack)
		if tw == "$fd" {
			w = skel.Word([]string{skel.Param(false, "fd", "", skel.Nil)})
		} else {
			w = skel.Word([]string{skel.Lit(tw)})
		}
	} else {
		w = g.word("redir_word", false)
	}
	g.f("redir:" + op)
	return skel.Redir(n, op, w, skel.Nil, skel.Nil)
}

// heredoc emits "<<" / "<<-" with a delimiter word and records the body.
func (g *g) heredoc(n string) string {
	g.hdn++
	op := g.pick("hd_op", "<<", "<<-")
	t := g.op(op)
	t.Glue = n != ""
	delim := g.pick("hd_delim", "EOF", "E", "END", "é", "!", "E_1", "-E", "-") + fmt.Sprint(g.hdn)
	h := &HD{Op: op, DelimText: delim}
	var wordTxt string
	var wparts []string
	decoy := "" // the literal parts of a delimiter that also has "$" syntax in it
	form := g.ch.Intn(11, "hd_quote")
	if form == 10 && (g.bq || g.o.NoSubst) {
		form = 8
	}
	if g.o.SpacedSubstDelim != 0 && !g.bq && !g.o.NoSubst && g.chance("hd_spaced_subst", 12) {
		if g.o.SpacedSubstDelim < 0 {
			g.f("excluded:heredoc_delimiter_spaced_substitution")
		} else {
			form = 11
		}
	}
	switch form {
	default:
		wordTxt = delim
		wparts = []string{skel.Lit(delim)}
	case 8:
		// no expansion is done on the delimiter: "$x" in it is text
		nm := g.pick("hd_dollar", "x", "1", "$", "{y}")
		decoy = delim
		wordTxt = delim + "$" + nm
		if nm == "{y}" {
			wparts = []string{skel.Lit(delim), skel.Param(true, "y", "", skel.Nil)}
		} else {
			wparts = []string{skel.Lit(delim), skel.Param(false, nm, "", skel.Nil)}
		}
		delim = wordTxt
		h.DelimText = delim
		g.f("heredoc_delimiter_with_dollar_syntax")
	case 9:
		decoy = delim
		wordTxt = `"` + delim + `$$"`
		wparts = []string{skel.Quote(`"`, []string{skel.Lit(delim), skel.Param(false, "$", "", skel.Nil)})}
		delim = delim + "$$"
		h.DelimText = delim
		h.Quoted = true
		g.f("heredoc_delimiter_with_dollar_syntax")
	case 11:
		// a substitution with blanks in it, inside double-quotes: the
		// delimiter is that text as written (no expansion, no reformatting)
		decoy = delim
		wordTxt = "\"`c  d`" + delim + "\""
		wparts = []string{skel.Quote(`"`, []string{skel.CmdSubst(false, []string{skel.Cmd(skel.Simple(nil, []string{skel.Word([]string{skel.Lit("c")}), skel.Word([]string{skel.Lit("d")})}), nil)}), skel.Lit(delim)})}
		delim = "`c  d`" + delim
		h.DelimText = delim
		h.Quoted = true
		g.f("heredoc_delimiter_with_spaced_substitution")
	case 10:
		decoy = delim
		wordTxt = "`c`" + delim
		wparts = []string{skel.CmdSubst(false, []string{skel.Cmd(skel.Simple(nil, []string{skel.Word([]string{skel.Lit("c")})}), nil)}), skel.Lit(delim)}
		delim = wordTxt
		h.DelimText = delim
		g.f("heredoc_delimiter_with_dollar_syntax")
	case 7:
		// double quotes with an escaped character inside: the delimiter is the
		// word after quote removal
		c := g.pick("hd_esc", `"`, `\`, "$", "`")
		wordTxt = `"` + delim + `\` + c + `x"`
		wparts = []string{skel.Quote(`"`, []string{skel.Lit(delim), skel.Quote(`\`, []string{skel.Lit(c)}), skel.Lit("x")})}
		delim = delim + c + "x"
		h.DelimText = delim
		h.Quoted = true
		g.f("heredoc_delimiter_with_escape")
	case 3:
		wordTxt = "'" + delim + "'"
		wparts = []string{skel.Quote("'", []string{skel.Lit(delim)})}
		h.Quoted = true
	case 4:
		// only part of the word is quoted
		r := []rune(delim)
		wordTxt = string(r[:1]) + `"` + string(r[1:]) + `"`
		wparts = []string{skel.Lit(string(r[:1])), skel.Quote(`"`, []string{skel.Lit(string(r[1:]))})}
		h.Quoted = true
	case 6:
		// empty quotes inside the word: still "some part was quoted"
		r := []rune(delim)
		wordTxt = string(r[:1]) + `""` + string(r[1:])
		wparts = []string{skel.Lit(string(r[:1])), skel.Quote(`"`, nil), skel.Lit(string(r[1:]))}
		h.Quoted = true
	case 5:
		r := []rune(delim)
		wordTxt = `\` + delim
		wparts = []string{skel.Quote(`\`, []string{skel.Lit(string(r[:1]))}), skel.Lit(string(r[1:]))}
		h.Quoted = true
	}
	h.WordSkel = skel.Word(wparts)
	// body
	var body strings.Builder
	var ps []string
	lit := ""
	flush := func() {
		if lit != "" {
			ps = append(ps, skel.Lit(lit))
			lit = ""
		}
	}
	nl := []int{1, 2, 0, 3, 4}[g.ch.Intn(5, "hd_lines")]
	for i := 0; i < nl; i++ {
		k := g.ch.Intn(26, "hd_line")
		if k == 20 {
			// double-quotes inside the word of an expansion (then single-quotes in a later one are still text)
			k = 0
			if !h.Quoted {
				flush()
				ps = append(ps, skel.Param(true, "x", ":-", skel.Word([]string{skel.Quote(`"`, []string{skel.Lit("a")})})))
				lit += " t\n"
				body.WriteString(`${x:-"a"} t` + "\n")
				g.f("heredoc_line_with_dquotes_inside_param_word")
				continue
			}
		}
		if k == 25 {
			// inside the word of an expansion double-quotes are real quotes,
			// and an escaped double-quote in them is an escape
			k = 0
			if !h.Quoted {
				flush()
				ps = append(ps, skel.Param(true, "x", "-", skel.Word([]string{skel.Quote(`"`, []string{skel.Lit("a"), skel.Quote(`\`, []string{skel.Lit(`"`)}), skel.Lit("b")})})))
				lit += " t\n"
				body.WriteString(`${x-"a\"b"} t` + "\n")
				g.f("heredoc_line_with_escaped_dquote_inside_param_word")
				continue
			}
		}
		if k >= 22 {
			// a substitution that spans several lines of the body
			kk := k
			k = 0
			if !h.Quoted && !g.bq && !g.o.NoSubst && form < 8 {
				flush()
				c := skel.Cmd(skel.Simple(nil, []string{skel.Word([]string{skel.Lit("c")})}), nil)
				txt := ""
				switch kk {
				case 22:
					ps = append(ps, skel.CmdSubst(true, []string{c}))
					txt = "$(\nc\n)"
				case 23:
					ps = append(ps, skel.CmdSubst(false, []string{c}))
					txt = "`\nc\n`"
				case 24:
					ps = append(ps, skel.Arith([]string{skel.Lit("1")}))
					txt = "$((\n1\n))"
				}
				lit += " t\n"
				body.WriteString(txt + " t\n")
				g.f("heredoc_body_with_multiline_substitution")
				continue
			}
		}
		if k == 21 {
			// a backslash in front of "}" outside every expansion is text
			lit += `a\}b \)` + "\n"
			body.WriteString(`a\}b \)` + "\n")
			continue
		}
		line := ""
		if k == 14 && h.Quoted {
			k = 0
		}
		if (form == 8 || form == 10) && (k == 2 || k == 3 || k == 4 || k == 6 || k == 7 || k == 14) {
			// the look-alike lines would be scanned for the delimiter's "$" syntax
			k = 0
		}
		if k == 17 {
			// what is left of the delimiter without its "$" syntax
			k = 0
			if decoy != "" {
				lit += decoy + "\n"
				body.WriteString(decoy + "\n")
				g.f("heredoc_line_with_literal_parts_of_delimiter")
				continue
			}
		}
		if k == 19 {
			// the delimiter text at the beginning of a line that goes on with an expansion or an escape
			k = 0
			if !h.Quoted && !g.bq && !g.o.NoSubst && form < 8 {
				lit += delim
				switch g.ch.Intn(6, "hd_head_delim") {
				case 0:
					flush()
					ps = append(ps, skel.Param(false, "a", "", skel.Nil))
					line = "$a"
				case 1:
					flush()
					ps = append(ps, skel.Param(true, "a", "", skel.Nil))
					line = "${a}"
				case 2:
					flush()
					ps = append(ps, skel.Quote(`\`, []string{skel.Lit("$")}))
					lit += "x"
					line = `\$x`
				case 3:
					flush()
					ps = append(ps, skel.CmdSubst(true, []string{skel.Cmd(skel.Simple(nil, []string{skel.Word([]string{skel.Lit("c")})}), nil)}))
					line = "$(c)"
				case 4:
					flush()
					ps = append(ps, skel.CmdSubst(false, []string{skel.Cmd(skel.Simple(nil, []string{skel.Word([]string{skel.Lit("c")})}), nil)}))
					line = "`c`"
				case 5:
					flush()
					ps = append(ps, skel.Quote(`\`, []string{skel.Lit(`\`)}))
					line = `\\`
				}
				lit += "\n"
				body.WriteString(delim + line + "\n")
				g.f("heredoc_line_beginning_with_delimiter_then_expansion")
				continue
			}
		}
		if k == 18 {
			// the delimiter text at the end of a line, behind an expansion or an escape
			k = 0
			if !h.Quoted && !g.bq && !g.o.NoSubst && form < 8 {
				switch g.ch.Intn(6, "hd_tail_delim") {
				case 0:
					flush()
					ps = append(ps, skel.Param(true, "x", "", skel.Nil))
					line = "${x}"
				case 1:
					flush()
					ps = append(ps, skel.Param(false, "1", "", skel.Nil))
					line = "$1"
				case 2:
					flush()
					ps = append(ps, skel.Quote(`\`, []string{skel.Lit("$")}))
					line = `\$`
				case 3:
					flush()
					ps = append(ps, skel.CmdSubst(true, []string{skel.Cmd(skel.Simple(nil, []string{skel.Word([]string{skel.Lit("c")})}), nil)}))
					line = "$(c)"
				case 4:
					flush()
					ps = append(ps, skel.Arith([]string{skel.Lit("1")}))
					line = "$((1))"
				case 5:
					lit += "a "
					flush()
					ps = append(ps, skel.Param(false, "?", "", skel.Nil))
					line = "a $?"
				}
				lit += delim + "\n"
				body.WriteString(line + delim + "\n")
				g.f("heredoc_line_ending_in_delimiter_behind_expansion")
				continue
			}
		}
		if k == 15 {
			// a double quote is not special in a here-document: the backslash
			// in front of it stays (whether the delimiter was quoted or not)
			lit += `a\"b \'c` + "\n"
			body.WriteString(`a\"b \'c` + "\n")
			continue
		}
		switch k {
		default:
			line = g.pick("hd_plain", "line", "a b  c", "é 日", "#not a comment", "; | & ( )", "'single' \"double\"", "}", "cr\r", "\uFFFD e\u0301 \u00a0", "\U0001F600\u0080\f")
		case 1:
			line = ""
		case 2:
			line = delim + "x"
		case 3:
			line = " " + delim
		case 4:
			line = "x" + delim
		case 5:
			line = "\tindented"
		case 6:
			if op == "<<" {
				line = "\t" + delim // not a delimiter for "<<"
			} else {
				line = "\t\tdeep"
			}
		case 7:
			r := []rune(delim)
			line = string(r[:len(r)-1])
		}
		if k >= 8 && h.Quoted {
			// expansions stay literal text
			line = g.pick("hd_qline", "$x", "${x:-y}", "$(c)", "`c`", `\$`, `\\`, `a\qb`, "$((1))")
			lit += line + "\n"
			body.WriteString(line + "\n")
			continue
		}
		if k < 8 {
			lit += line + "\n"
			body.WriteString(line + "\n")
			continue
		}
		// expanding lines
		switch k {
		case 8:
			lit += "a "
			flush()
			ps = append(ps, skel.Param(false, "x", "", skel.Nil))
			lit += " b\n"
			line = "a $x b"
		case 9:
			flush()
			ps = append(ps, skel.Param(true, "x", ":-", skel.Word([]string{skel.Lit("y z")})))
			lit += "\n"
			line = "${x:-y z}"
		case 10:
			if g.o.NoSubst {
				lit += "plain\n"
				line = "plain"
				break
			}
			flush()
			if g.chance("hd_subst_quotes", 3) {
				ps = append(ps, skel.CmdSubst(true, []string{skel.Cmd(skel.Simple(nil, []string{
					skel.Word([]string{skel.Lit("c")}),
					skel.Word([]string{skel.Param(true, "b", ":-", skel.Word([]string{skel.Quote("'", []string{skel.Lit("e f")})}))}),
					skel.Word([]string{skel.Quote(`\`, []string{skel.Lit("a")})})}), nil)}))
				lit += " tail\n"
				line = `$(c ${b:-'e f'} \a) tail`
				g.f("quotes_inside_a_substitution_inside_double_quotes")
				break
			}
			ps = append(ps, skel.CmdSubst(true, []string{skel.Cmd(skel.Simple(nil, []string{skel.Word([]string{skel.Lit("c")}), skel.Word([]string{skel.Lit("d")})}), nil)}))
			lit += " tail\n"
			line = "$(c d) tail"
		case 11:
			if g.o.NoSubst {
				lit += "plain\n"
				line = "plain"
				break
			}
			lit += "bq "
			flush()
			ps = append(ps, skel.CmdSubst(false, []string{skel.Cmd(skel.Simple(nil, []string{skel.Word([]string{skel.Lit("c")})}), nil)}))
			lit += "\n"
			line = "bq `c`"
		case 12:
			c := g.pick("hd_esc", "$", `\`, "`")
			flush()
			ps = append(ps, skel.Quote(`\`, []string{skel.Lit(c)}))
			lit += "x\n"
			line = `\` + c + "x"
		case 13:
			lit += `a\qb $` + "\n"
			line = `a\qb $`
		case 14:
			// a line continuation: the next line, though it looks like the
			// delimiter, is the rest of this line
			lit += "cont" + delim + "\n"
			line = "cont\\\n" + delim
			g.f("heredoc_continuation_before_delimiter_lookalike")
		case 16:
			// the body is read like double-quoted text, and so is the word of
			// an expansion in it
			flush()
			ps = append(ps, skel.Param(true, "x", ":-", skel.Word([]string{skel.Lit(`'q' \a`)})))
			lit += "\n"
			line = `${x:-'q' \a}`
			g.f("literal_squote_in_dquoted_param_word")
		}
		body.WriteString(line + "\n")
	}
	flush()
	if ps == nil {
		ps = []string{}
	}
	h.Body = body.String()
	h.BodySkel = ps
	h.Delim = delim
	if !h.Quoted && g.chance("hd_cont_before_delim", 10) {
		// a line that is only a line continuation joins with the delimiter line
		// (one or several such lines)
		h.DelimPrefix = strings.Repeat("\\\n", 1+g.ch.Intn(3, "hd_cont_lines"))
		g.f("heredoc_continuation_line_before_delimiter")
	}
	if op == "<<-" {
		h.Delim = strings.Repeat("\t", g.ch.Intn(4, "hd_tab_delim")) + delim
	}
	wt := g.s.add(text(KWord, wordTxt))
	wt.HD = h
	wt.Depth = len(g.stack)
	g.hds = append(g.hds, h)
	g.f("heredoc")
	if h.Quoted {
		g.f("heredoc_quoted")
	}
	return skel.Redir(n, op, h.WordSkel, skel.Word(ps), skel.Word([]string{skel.Lit(h.Delim)}))
}
