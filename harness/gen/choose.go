package gen

import (
	"pgregory.net/rapid"
)

// RapidChooser draws every decision through rapid, so failures shrink.
type RapidChooser struct{ T *rapid.T }

func (c RapidChooser) Intn(n int, label string) int {
	if n <= 1 {
		return 0
	}
	return rapid.IntRange(0, n-1).Draw(c.T, label)
}

// Script is a deterministic chooser for the systematic mode: the decisions
// labelled Key are answered from Values in order; Fixed answers other labels;
// everything else takes the simplest choice (0).
type Script struct {
	Key    string
	Values []int
	Fixed  map[string]int
	pos    int
}

func (s *Script) Intn(n int, label string) int {
	if label == s.Key {
		if s.pos < len(s.Values) {
			v := s.Values[s.pos]
			s.pos++
			if v >= n {
				v = n - 1
			}
			return v
		}
		return 0
	}
	if v, ok := s.Fixed[label]; ok {
		if v >= n {
			v = n - 1
		}
		return v
	}
	return 0
}

// RandomLayout draws the text of every gap through rapid.
type RandomLayout struct {
	T *rapid.T
	// Comments / Conts / Linebreaks switch the respective features on.
	Comments, Conts, Linebreaks bool
}

var commentTexts = []string{EmptyComment, " caf\u00e9\u0301 \uFFFD \U0001F600\u00a0", " cr\r", " c", "x", " note: a;b|c", " é 日", "!", " # nested #", " 'q' \"d\" $x `c`", "  two  blanks", " ends in \\", "\\", " a\\b \\",
	" esc \\` x", "\\`", " two \\\\", " three \\\\\\` y"}

// CommentOKInBackquotes: inside backquotes an unescaped backquote ends the
// substitution, also in a comment, and a backslash in front of the closing
// backquote would escape it. What is left are the texts in which every
// backquote is escaped (an odd number of backslashes in front of it) and
// which do not end in an odd number of backslashes.
func CommentOKInBackquotes(c string) bool {
	run := 0
	for _, r := range c {
		if r == '\\' {
			run++
			continue
		}
		if r == '`' && run%2 == 0 {
			return false
		}
		run = 0
	}
	return run%2 == 0
}

var commentTextsBq = func() []string {
	var out []string
	for _, c := range commentTexts {
		if CommentOKInBackquotes(c) {
			out = append(out, c)
		}
	}
	return out
}()

func (l RandomLayout) Gap(b Boundary) GapText {
	var g GapText
	if b.ContOnly {
		if l.Conts && rapid.IntRange(0, 7).Draw(l.T, "ionum_cont") == 0 {
			g.Cont = true
		}
		return g
	}
	commentTexts := commentTexts
	if b.Stream != nil && b.Stream.Open == "`" {
		// inside backquotes a backquote ends the substitution, also in a comment
		commentTexts = commentTextsBq
	}
	switch rapid.IntRange(0, 9).Draw(l.T, "gap") {
	case 0, 1, 2, 3, 4:
		g.Blanks = b.Need
	case 5:
		g.Blanks = "  "
	case 6:
		g.Blanks = "\t"
	case 7:
		g.Blanks = b.Need
		if l.Conts {
			g.Cont = true
			// blanks in front of the line continuation, behind it, on both sides or nowhere
			switch rapid.IntRange(0, 5).Draw(l.T, "cont_blanks") {
			case 0:
				g.Blanks = " "
			case 1:
				g.Blanks, g.After = "", " "
			case 2:
				g.Blanks, g.After = " ", "\t"
			case 3:
				g.Blanks = "\t"
			}
		}
	case 8:
		g.Blanks = b.Need
		if l.Comments && b.BeforeNewline {
			g.Comment = rapid.SampledFrom(commentTexts).Draw(l.T, "comment")
		}
	case 9:
		g.Blanks = b.Need
		if l.Linebreaks && b.Linebreak {
			g.Newlines = rapid.IntRange(1, 2).Draw(l.T, "newlines")
			if l.Comments {
				for i := 0; i < g.Newlines; i++ {
					c := ""
					if rapid.IntRange(0, 2).Draw(l.T, "nlcomment") == 0 {
						c = rapid.SampledFrom(commentTexts).Draw(l.T, "comment")
					}
					g.NLComments = append(g.NLComments, c)
				}
			}
		}
	}
	return g
}
