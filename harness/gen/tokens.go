package gen

// TokenAlphabet is the alphabet of the exhaustive token-string domain T: one
// representative of every token class of the shell language.
var TokenAlphabet = []string{
	"a", "b=1", "1",
	"!", "{", "}", "for", "case", "esac", "in", "if", "elif", "then", "else", "fi", "while", "until", "do", "done",
	"&&", "||", "|", "(", ")", ";;", "&", ";", "((", "))",
	"<", ">", ">|", ">>", "<<", "<<-", "<&", ">&", "<>",
	"\n",
	`"x"`, `'y'`, `\z`, "$v", "${v:-w}", "$(c)", "`c`", "$((1))", "#c", `\`,
	`""`, `"$v z"`,
}

// TokenStrings calls fn for every string of exactly n tokens; the tokens are
// passed as a slice that fn must not keep.
func TokenStrings(n int, fn func(idx int, toks []string)) {
	if n == 0 {
		fn(0, nil)
		return
	}
	ix := make([]int, n)
	toks := make([]string, n)
	count := 0
	for {
		for i, k := range ix {
			toks[i] = TokenAlphabet[k]
		}
		fn(count, toks)
		count++
		k := n - 1
		for k >= 0 {
			ix[k]++
			if ix[k] < len(TokenAlphabet) {
				break
			}
			ix[k] = 0
			k--
		}
		if k < 0 {
			return
		}
	}
}
