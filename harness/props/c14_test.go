package props

import (
	"encoding/hex"
	"fmt"
	"os"
	"path/filepath"
	"reflect"
	"strconv"
	"strings"
	"sync"
	"testing"
	"unicode/utf8"

	"github.com/hattya/go.sh/ast"
	"github.com/hattya/go.sh/interp"
	"github.com/hattya/go.sh/parser"
	"pgregory.net/rapid"

	"verif/ref"
)

// C14 — field splitting.

type c14Case struct {
	Segs   []ref.Seg `json:"segs"`
	IFS    string    `json:"ifs"`
	IFSSet bool      `json:"ifs_set"`
	// Via selects how the word reaches Expand: "ast" builds it directly,
	// "parse" writes it as source text (unquoted text through $v, quoted text
	// through '...', "..." or "$v") and parses that.
	Via string `json:"via"`
	// IFSHex replaces IFS in the record when IFS is not valid UTF-8.
	IFSHex string `json:"ifs_hex,omitempty"`
	// Args: the positional parameters; a segment of style "\"@" is then
	// "$@" with these (each a field of its own, the first joined to what
	// stands in front of the quotes, the last to what follows them).
	Args []string `json:"args,omitempty"`
	// AssignIFS: the word ends in ${IFS:=value}, with IFS unset (or null,
	// when IFSSet) beforehand: the word is split with the value it assigns.
	AssignIFS string `json:"assign_ifs,omitempty"`
}

// c14Want computes the fields the property demands.
func c14Want(c c14Case) (fields []string, conserved string) {
	ifs, set := c.ifs(), c.IFSSet
	segs := append([]ref.Seg{}, c.Segs...)
	if c.AssignIFS != "" {
		ifs, set = c.AssignIFS, true
		segs = append(segs, ref.Seg{Text: c.AssignIFS})
	}
	if len(c.Args) == 0 {
		return ref.Split(segs, ifs, set), ref.Conserved(segs, ifs, set)
	}
	// cut the word at every field boundary that the positional parameters
	// bring along: "$@", $@ and $* give one field per parameter (quoted text
	// in the first form, text that is split further in the other two), the
	// first joined to what stands in front and the last to what follows;
	// "$*" is the parameters joined by the first character of IFS, quoted
	var parts [][]ref.Seg
	cur := []ref.Seg{}
	for _, sg := range segs {
		switch {
		case !sg.Quoted && (sg.Style == `"@` || sg.Style == "@" || sg.Style == "*"):
			for i, a := range c.Args {
				if i > 0 {
					parts = append(parts, cur)
					cur = []ref.Seg{}
				}
				cur = append(cur, ref.Seg{Text: a, Quoted: sg.Style == `"@`})
			}
		case !sg.Quoted && sg.Style == `"*`:
			sep := " "
			if set {
				sep = ""
				if ifs != "" {
					_, n := utf8.DecodeRuneInString(ifs)
					sep = ifs[:n]
				}
			}
			cur = append(cur, ref.Seg{Text: strings.Join(c.Args, sep), Quoted: true})
		default:
			cur = append(cur, sg)
		}
	}
	parts = append(parts, cur)
	for _, p := range parts {
		fields = append(fields, ref.Split(p, ifs, set)...)
		conserved += ref.Conserved(p, ifs, set)
	}
	return fields, conserved
}

// ifs returns the IFS value of the case.
func (c c14Case) ifs() string {
	if c.IFSHex != "" {
		b, _ := hex.DecodeString(c.IFSHex)
		return string(b)
	}
	return c.IFS
}

func mkC14(ifs string, set bool, via string) c14Case {
	c := c14Case{IFS: ifs, IFSSet: set, Via: via}
	if !utf8.ValidString(ifs) {
		c.IFS, c.IFSHex = "", hex.EncodeToString([]byte(ifs))
	}
	return c
}

var c14Env = interp.NewExecEnv("sh")

// c14LenVar returns the name of a variable whose length, in decimal, is
// text ("0": a parameter that is never set).
func c14LenVar(text string, vars map[string]string) string {
	n, _ := strconv.Atoi(text)
	if n == 0 {
		return "c14_never_set"
	}
	name := "len" + text
	vars[name] = strings.Repeat("é", n)
	return name
}

// c14Word builds the word for the case; vars receives the variables the
// source form refers to.
func c14Word(c c14Case, vars map[string]string) (ast.Word, string, error) {
	if c.Via != "parse" {
		var w ast.Word
		for _, s := range c.Segs {
			switch {
			case s.Expr != "" && s.Quoted:
				w = append(w, &ast.Quote{Tok: `"`, Value: ast.Word{&ast.ArithExp{Expr: ast.Word{&ast.Lit{Value: s.Expr}}}}})
			case s.Expr != "":
				w = append(w, &ast.ArithExp{Expr: ast.Word{&ast.Lit{Value: s.Expr}}})
			case !s.Quoted && s.Style == "@":
				w = append(w, &ast.ParamExp{Name: &ast.Lit{Value: "@"}})
			case !s.Quoted && s.Style == `"@`:
				w = append(w, &ast.Quote{Tok: `"`, Value: ast.Word{&ast.ParamExp{Name: &ast.Lit{Value: "@"}}}})
			case !s.Quoted && s.Style == "*":
				w = append(w, &ast.ParamExp{Name: &ast.Lit{Value: "*"}})
			case !s.Quoted && s.Style == `"*`:
				w = append(w, &ast.Quote{Tok: `"`, Value: ast.Word{&ast.ParamExp{Name: &ast.Lit{Value: "*"}}}})
			case s.Quoted && s.Style == `"#`:
				// the text is the length of a variable (of a parameter that is not set, if it is 0)
				w = append(w, &ast.Quote{Tok: `"`, Value: ast.Word{&ast.ParamExp{Braces: true, Name: &ast.Lit{Value: c14LenVar(s.Text, vars)}, Op: "#"}}})
			case !s.Quoted:
				w = append(w, &ast.Lit{Value: s.Text})
			case s.Style == `\` && s.Text != "":
				for t := s.Text; t != ""; {
					_, n := utf8.DecodeRuneInString(t)
					w = append(w, &ast.Quote{Tok: `\`, Value: ast.Word{&ast.Lit{Value: t[:n]}}})
					t = t[n:]
				}
			case s.Style == `"-` && s.Text != "":
				// the text as the default of a parameter that is never set, inside double-quotes
				w = append(w, &ast.Quote{Tok: `"`, Value: ast.Word{&ast.ParamExp{Braces: true, Name: &ast.Lit{Value: "c14_never_set"}, Op: ":-", Word: ast.Word{&ast.Lit{Value: s.Text}}}}})
			case s.Style == "'":
				if s.Text == "" {
					w = append(w, &ast.Quote{Tok: `'`, Value: ast.Word{}})
				} else {
					w = append(w, &ast.Quote{Tok: `'`, Value: ast.Word{&ast.Lit{Value: s.Text}}})
				}
			case s.Style == `"` && s.Text != "":
				w = append(w, &ast.Quote{Tok: `"`, Value: ast.Word{&ast.Lit{Value: s.Text}}})
			case s.Text == "":
				w = append(w, &ast.Quote{Tok: `"`, Value: ast.Word{}})
			default:
				w = append(w, &ast.Quote{Tok: `'`, Value: ast.Word{&ast.Lit{Value: s.Text}}})
			}
		}
		if c.AssignIFS != "" {
			w = append(w, &ast.ParamExp{Braces: true, Name: &ast.Lit{Value: "IFS"}, Op: ":=", Word: ast.Word{&ast.Lit{Value: c.AssignIFS}}})
		}
		return w, "", nil
	}
	var b strings.Builder
	for i, s := range c.Segs {
		name := fmt.Sprintf("v%d", i)
		plain := s.Text != "" && utf8.ValidString(s.Text) && strings.IndexFunc(s.Text, func(r rune) bool {
			return !(r >= 'a' && r <= 'z' || r == ',' || r == ':' || r > 127)
		}) == -1
		switch {
		case s.Expr != "" && s.Quoted:
			b.WriteString(`"$((` + s.Expr + `))"`)
		case s.Expr != "":
			b.WriteString(`$((` + s.Expr + `))`)
		case !s.Quoted && s.Style == "@":
			b.WriteString("$@")
		case !s.Quoted && s.Style == `"@`:
			b.WriteString(`"$@"`)
		case !s.Quoted && s.Style == "*":
			b.WriteString("$*")
		case !s.Quoted && s.Style == `"*`:
			b.WriteString(`"$*"`)
		case s.Quoted && s.Style == `"#`:
			b.WriteString(`"${#` + c14LenVar(s.Text, vars) + `}"`)
		case s.Quoted && s.Style == `"-` && s.Text != "" && !strings.ContainsAny(s.Text, "\"$`\\}'") && utf8.ValidString(s.Text):
			b.WriteString(`"${c14_never_set:-` + s.Text + `}"`)
		case s.Quoted && s.Style == "'" && !strings.Contains(s.Text, "'") && utf8.ValidString(s.Text):
			b.WriteString("'" + s.Text + "'")
		case s.Quoted && s.Style == `"` && !strings.ContainsAny(s.Text, "\"$`\\") && utf8.ValidString(s.Text):
			b.WriteString(`"` + s.Text + `"`)
		case s.Quoted && s.Style == `\` && s.Text != "" && !strings.Contains(s.Text, "\n") && utf8.ValidString(s.Text):
			for _, r := range s.Text {
				b.WriteString(`\` + string(r))
			}
		case !s.Quoted && plain && i%2 == 0:
			b.WriteString(s.Text)
		case !s.Quoted:
			if s.Text == "" {
				continue // an empty unquoted segment contributes nothing
			}
			vars[name] = s.Text
			b.WriteString("${" + name + "}")
		case s.Text == "":
			b.WriteString([]string{`""`, `''`}[i%2])
		case !strings.Contains(s.Text, "'") && i%3 == 0 && utf8.ValidString(s.Text):
			b.WriteString("'" + s.Text + "'")
		default:
			vars[name] = s.Text
			b.WriteString(`"${` + name + `}"`)
		}
	}
	if c.AssignIFS != "" {
		b.WriteString("${IFS:=" + c.AssignIFS + "}")
	}
	src := "_ " + b.String()
	cmd, _, err := parser.ParseCommand("c14", src)
	if err != nil {
		return nil, src, fmt.Errorf("harness: generated source %q does not parse: %v", src, err)
	}
	sc, ok := cmd.(*ast.Cmd).Expr.(*ast.SimpleCmd)
	if !ok || len(sc.Args) > 2 {
		return nil, src, fmt.Errorf("harness: generated source %q is not a two-word command", src)
	}
	if len(sc.Args) < 2 {
		return ast.Word{}, src, nil
	}
	return sc.Args[1], src, nil
}

func checkC14(c c14Case) error {
	env := c14Env
	ifs := c.ifs()
	vars := map[string]string{}
	word, src, err := c14Word(c, vars)
	if err != nil {
		return err
	}
	env.Args = append([]string{"sh"}, c.Args...)
	if c.AssignIFS != "" {
		// the word itself assigns IFS, which is unset or null beforehand
		if c.IFSSet {
			ifs = ""
		}
	}
	defer func() {
		for k := range vars {
			env.Unset(k)
		}
	}()
	want, keep := c14Want(c)
	// once with pathname expansion switched off and, where it has nothing to
	// do (see c14GlobNeutral), once with it on: the fields are the same
	for _, glob := range []bool{false, true} {
		how := ""
		env.Opts = interp.NoGlob
		if glob {
			neutral, bs := c14GlobNeutral(c, want)
			if !neutral {
				break
			}
			env.Opts = 0
			how = " with pathname expansion on"
			if bs {
				// a backslash that an expansion brings into a field is a
				// character of the field; without a pattern character there
				// is nothing to expand, also when a file is named like the
				// field without its backslashes
				leave, err := c14EnterDir(want)
				if err != nil {
					return fmt.Errorf("harness: %v", err)
				}
				defer leave()
				how = " with pathname expansion on, in a directory with files named like the fields without their backslashes"
			}
		}
		if c.IFSSet {
			env.Set("IFS", ifs)
		} else {
			env.Unset("IFS")
		}
		for k, v := range vars {
			env.Set(k, v)
		}
		var got []string
		if err := guard(func() error {
			var e error
			got, e = env.Expand(word, 0)
			return e
		}); err != nil {
			return fmt.Errorf("Expand of %s (src %q) IFS=%q set=%v%s: %v", segString(c.Segs), src, ifs, c.IFSSet, how, err)
		}
		if !(len(got) == 0 && len(want) == 0) && !reflect.DeepEqual(got, want) {
			return fmt.Errorf("Expand of %s (src %q) IFS=%q set=%v args=%q assigning IFS=%q%s: got %q, want %q", segString(c.Segs), src, ifs, c.IFSSet, c.Args, c.AssignIFS, how, got, want)
		}
		if cat := strings.Join(got, ""); cat != keep {
			return fmt.Errorf("Expand of %s IFS=%q set=%v%s: fields %q concatenate to %q, but the word without its unquoted IFS characters is %q", segString(c.Segs), ifs, c.IFSSet, how, got, cat, keep)
		}
	}
	env.Opts = interp.NoGlob
	return nil
}

// c14GlobNeutral: pathname expansion cannot change the fields of this word,
// whatever the working directory holds: no unquoted pattern character in it,
// and no field that is an absolute path. bs: there is an unquoted backslash
// in it (then the working directory is made adversarial, see c14EnterDir).
func c14GlobNeutral(c c14Case, want []string) (neutral, bs bool) {
	for _, s := range c.Segs {
		if !s.Quoted && strings.ContainsAny(s.Text, "*?[") {
			return false, false
		}
		bs = bs || !s.Quoted && strings.Contains(s.Text, `\`)
	}
	for _, a := range c.Args {
		if strings.ContainsAny(a, "*?[\\") {
			return false, false
		}
	}
	for _, f := range want {
		if strings.HasPrefix(f, "/") {
			return false, false
		}
	}
	return true, bs
}

// c14Dir: the scratch directory of this process and the files made in it.
var c14Dir struct {
	once sync.Once
	wd   string
	path string
	err  error
	made map[string]bool
}

// c14EnterDir enters a scratch directory that holds a file named like every
// field with its backslashes taken out. Files of earlier cases stay (a field
// without a pattern character is not looked up, whatever else is there).
func c14EnterDir(fields []string) (leave func(), err error) {
	d := &c14Dir
	d.once.Do(func() {
		d.wd, _ = os.Getwd()
		d.path = filepath.Join(outDir(), fmt.Sprintf("c14-glob-%d", os.Getpid()))
		d.err = os.MkdirAll(d.path, 0o755)
		d.made = map[string]bool{}
	})
	if d.err != nil {
		return nil, d.err
	}
	if len(d.made) > 3000 {
		for n := range d.made {
			os.Remove(filepath.Join(d.path, n))
		}
		d.made = map[string]bool{}
	}
	for _, f := range fields {
		n := strings.ReplaceAll(f, `\`, "")
		// (short names only: the longer fields of the sampled words would make
		// this a test of the file system)
		if n == "" || n == "." || n == ".." || len(n) > 3 || strings.ContainsAny(n, "/\x00") || d.made[n] {
			continue
		}
		if os.WriteFile(filepath.Join(d.path, n), nil, 0o644) == nil {
			d.made[n] = true
		}
	}
	if err := os.Chdir(d.path); err != nil {
		return nil, err
	}
	return func() { os.Chdir(d.wd) }, nil
}

// c14LeaveDir removes the scratch directory at the end of the test.
func c14LeaveDir() {
	if c14Dir.path != "" {
		os.Chdir(c14Dir.wd)
		os.RemoveAll(c14Dir.path)
	}
}

func segString(segs []ref.Seg) string {
	var b strings.Builder
	for _, s := range segs {
		if s.Expr != "" {
			fmt.Fprintf(&b, "A(%s)", s.Expr)
		}
		if s.Quoted {
			fmt.Fprintf(&b, "Q%s%q", s.Style, s.Text)
		} else {
			fmt.Fprintf(&b, "U%s%q", s.Style, s.Text)
		}
	}
	return b.String()
}

func c14NonTrivial(c c14Case) bool {
	ifs := c.ifs()
	if !c.IFSSet {
		ifs = " \t\n"
	}
	unq, quoted := false, false
	kinds := map[bool]bool{}
	for _, s := range c.Segs {
		if s.Quoted {
			quoted = true
			continue
		}
		for _, r := range s.Text {
			if strings.ContainsRune(ifs, r) {
				unq = true
				kinds[r == ' ' || r == '\t' || r == '\n'] = true
			}
		}
	}
	return unq && (quoted || len(kinds) == 2)
}

func init() {
	reg("C14", "split", checkC14)
	reg("C14", "fresh", checkC14Fresh)
}

// c14Fresh: a new environment splits at <space><tab><newline>, whatever the
// process environment says about IFS (XCU 2.5.3: the shell sets IFS when it
// is invoked).
type c14Fresh struct {
	EnvIFS string `json:"env_ifs"` // IFS in the process environment when the ExecEnv is made
	Value  string `json:"value"`
}

func checkC14Fresh(c c14Fresh) error {
	old, had := os.LookupEnv("IFS")
	os.Setenv("IFS", c.EnvIFS)
	defer func() {
		if had {
			os.Setenv("IFS", old)
		} else {
			os.Unsetenv("IFS")
		}
	}()
	env := interp.NewExecEnv("sh", "p q", "r")
	env.Opts |= interp.NoGlob
	env.Set("v", c.Value)
	for _, w := range []struct {
		word ast.Word
		want []string
	}{
		{ast.Word{&ast.ParamExp{Name: &ast.Lit{Value: "v"}}}, ref.Split([]ref.Seg{{Text: c.Value}}, " \t\n", true)},
		{ast.Word{&ast.Quote{Tok: `"`, Value: ast.Word{&ast.ParamExp{Name: &ast.Lit{Value: "*"}}}}}, []string{"p q r"}},
	} {
		var got []string
		if err := guard(func() error {
			var e error
			got, e = env.Expand(w.word, 0)
			return e
		}); err != nil {
			return fmt.Errorf("Expand in a new environment (IFS=%q in the process environment): %v", c.EnvIFS, err)
		}
		if !(len(got) == 0 && len(w.want) == 0) && !reflect.DeepEqual(got, w.want) {
			return fmt.Errorf("a new environment, made with IFS=%q in the process environment, with v=%q: got %q, want %q (a new environment splits and joins with <space><tab><newline>)", c.EnvIFS, c.Value, got, w.want)
		}
	}
	return nil
}

type c14IFS struct {
	set     bool
	val     string
	ws, nws string
}

var c14Cfgs = []c14IFS{
	{false, "", " ", ""}, {true, " \t\n", "\t", ""}, {true, " ,", " ", ","}, {true, ",", "", ","},
	{true, ":", "", ":"}, {true, "", "", ""}, {true, "é ", " ", "é"}, {true, ",:", "", ":"}, {true, "\n,", "\n", ","},
	// an IFS character that is not valid UTF-8 (the words use the same byte, so
	// that "the same character" does not depend on how invalid bytes are compared)
	{true, "\xff ", " ", "\xff"},
	// IFS characters above U+00FF whose low byte is an ASCII character
	// (U+3000: NUL, U+FF0C: form feed, U+0120: space, U+4E2D: '-')
	{true, "\u3000\uff0c", "", "\u3000"}, {true, "\u0120\u4e2d", "", "\u4e2d"},
	// U+FFFD is a character like any other; decoders also use it for bytes
	// that are not valid UTF-8, which are different characters
	{true, "\uFFFD ", " ", "\uFFFD"},
}

func TestC14(t *testing.T) {
	defer c14LeaveDir()
	st := newStats("C14")
	defer st.Write()
	sh, nsh := shard()

	// (a) exhaustive: words of <= 6 segments over 7 segment kinds x IFS settings
	type sym struct {
		name string
		mk   func(w, n string) (ref.Seg, bool)
	}
	syms := []sym{
		{"o", func(w, n string) (ref.Seg, bool) { return ref.Seg{Text: "x"}, true }},
		{"W", func(w, n string) (ref.Seg, bool) { return ref.Seg{Text: w}, w != "" }},
		{"N", func(w, n string) (ref.Seg, bool) { return ref.Seg{Text: n}, n != "" }},
		{"w", func(w, n string) (ref.Seg, bool) { return ref.Seg{Text: "\v"}, true }}, // white space that is not in IFS
		{"q", func(w, n string) (ref.Seg, bool) { return ref.Seg{Text: "y", Quoted: true}, true }},
		{"Q", func(w, n string) (ref.Seg, bool) { return ref.Seg{Text: n + w, Quoted: true}, n+w != "" }},
		{"e", func(w, n string) (ref.Seg, bool) { return ref.Seg{Quoted: true}, true }},
	}
	// for IFS characters that have an ill-formed twin: "\xfe" next to "\xff", "\xff" next to U+FFFD
	// for multi-byte IFS characters: one of the bytes of their encoding, on its own
	twin := map[string]string{"\xff": "\xfe", "\uFFFD": "\xff", "é": "\xa9", "\u3000": "\x80", "\u4e2d": "\xb8"}
	maxn := 6
	if thorough() {
		maxn = 7
	}
	idx := 0
	var rec func(prefix []int)
	rec = func(prefix []int) {
		idx++
		if idx%nsh == sh {
			for ci, cfg := range c14Cfgs {
				c := mkC14(cfg.val, cfg.set, "ast")
				ok := true
				for _, k := range prefix {
					s, avail := syms[k].mk(cfg.ws, cfg.nws)
					ok = ok && avail
					c.Segs = append(c.Segs, s)
				}
				if !ok {
					continue
				}
				if tw, has := twin[cfg.nws]; has && len(prefix) <= 4 {
					// the same word with the twin in place of the ordinary character
					c2 := mkC14(cfg.val, cfg.set, "ast")
					for _, sg := range c.Segs {
						if sg.Text == "x" && !sg.Quoted {
							sg.Text = tw
						}
						c2.Segs = append(c2.Segs, sg)
					}
					if err := checkC14(c2); err != nil {
						fail(t, "C14", "split", c2, "%v", err)
					}
					st.EvalN(1, 1)
					st.Class("ill_formed_twin_of_an_ifs_character")
				}
				for _, via := range []string{"ast", "parse"} {
					c.Via = via
					if via == "parse" && (idx+ci)%4 != 0 {
						continue // the parsed form on a quarter of the space
					}
					if err := checkC14(c); err != nil {
						fail(t, "C14", "split", c, "%v", err)
					}
					nt := int64(0)
					if c14NonTrivial(c) {
						nt = 1
					}
					st.EvalN(1, nt)
					st.Class("exhaustive_via_" + via)
					if idx%50021 == 0 {
						st.Sample(c)
					}
				}
			}
		}
		if len(prefix) == maxn {
			return
		}
		for k := range syms {
			rec(append(append([]int{}, prefix...), k))
		}
	}
	rec(nil)
	st.Exhaustive = true
	st.Note("exhaustive: all words of <= %d segments over {ordinary, IFS white space, IFS non-white-space, non-IFS white space, quoted ordinary, quoted IFS characters, empty quotes} x %d IFS settings (unset, default, ' ,', ',', ':', empty, multi-byte, two non-white-space, newline+comma, an invalid byte), word built as AST; a quarter of them also written as source text and parsed", maxn, len(c14Cfgs))

	// (a″) the spelling of a segment is a dimension of its own: every quote
	// style for the quoted kinds, and $@ / "$@" without positional parameters
	// (which contribute nothing) among the others
	{
		syms2 := append(append([]sym{}, syms...),
			sym{"e'", func(w, n string) (ref.Seg, bool) { return ref.Seg{Quoted: true, Style: "'"}, true }},
			sym{"q\\", func(w, n string) (ref.Seg, bool) { return ref.Seg{Text: "y", Quoted: true, Style: `\`}, true }},
			sym{"Q\"", func(w, n string) (ref.Seg, bool) { return ref.Seg{Text: n + w, Quoted: true, Style: `"`}, n+w != "" }},
			sym{"Q\\", func(w, n string) (ref.Seg, bool) {
				return ref.Seg{Text: n + w, Quoted: true, Style: `\`}, n+w != "" && !strings.Contains(n+w, "\n")
			}},
			sym{"\\", func(w, n string) (ref.Seg, bool) { return ref.Seg{Text: `\`}, true }}, // a backslash is an ordinary character here
			sym{"Q-", func(w, n string) (ref.Seg, bool) { return ref.Seg{Text: "a" + n + w, Quoted: true, Style: `"-`}, true }},
			sym{"@", func(w, n string) (ref.Seg, bool) { return ref.Seg{Style: "@"}, true }},
			sym{"\"@", func(w, n string) (ref.Seg, bool) { return ref.Seg{Style: `"@`}, true }},
		)
		max2 := 4
		if thorough() {
			max2 = 5
		}
		idx2 := 0
		var k2 int64
		var rec2 func(prefix []int)
		rec2 = func(prefix []int) {
			idx2++
			styled := false
			for _, k := range prefix {
				styled = styled || k >= len(syms)
			}
			if idx2%nsh == sh && styled {
				for _, cfg := range c14Cfgs {
					c := mkC14(cfg.val, cfg.set, "ast")
					ok := true
					for _, k := range prefix {
						s, avail := syms2[k].mk(cfg.ws, cfg.nws)
						ok = ok && avail
						c.Segs = append(c.Segs, s)
					}
					if !ok {
						continue
					}
					for _, via := range []string{"ast", "parse"} {
						c.Via = via
						if err := checkC14(c); err != nil {
							fail(t, "C14", "split", c, "%v", err)
						}
						nt := int64(0)
						if c14NonTrivial(c) {
							nt = 1
						}
						st.EvalN(1, nt)
						k2++
					}
				}
			}
			if len(prefix) == max2 {
				return
			}
			for k := range syms2 {
				rec2(append(append([]int{}, prefix...), k))
			}
		}
		rec2(nil)
		st.ClassN("exhaustive_with_spelling_variants", k2)
		st.Note("exhaustive: all words of <= %d segments over the 7 kinds plus '' , backslash-quoted ordinary and IFS characters, double-quoted IFS characters, and $@ / \"$@\" with no positional parameters, that use at least one of the added spellings x %d IFS settings, as AST and as parsed source", max2, len(c14Cfgs))
	}

	// (a‴) "$@" with positional parameters inside a longer word: every
	// parameter is a field of its own, the first joined to what stands in
	// front of the quotes and the last to what follows them; and words that
	// assign IFS themselves
	{
		pool := []ref.Seg{{Text: "x"}, {Text: " "}, {Text: ","}, {Text: "y", Quoted: true, Style: "'"}, {Text: " z", Quoted: true, Style: `"`}, {Quoted: true, Style: "'"}, {Text: "w,"}}
		ats := []ref.Seg{{Style: `"@`}, {Style: "@"}, {Style: "*"}, {Style: `"*`}}
		var sides [][]ref.Seg
		sides = append(sides, nil)
		for _, a := range pool {
			sides = append(sides, []ref.Seg{a})
			for _, b := range pool {
				sides = append(sides, []ref.Seg{a, b})
			}
		}
		k := 0
		var n int64
		for _, args := range [][]string{{"a b", "c"}, {"", "x"}, {"p", "", ""}, {"q"}, {"", ""}, {"a,b", "c d", "e"}, {"a", ""}, {"", "b", ""}} {
			for _, cfg := range []c14IFS{{false, "", " ", ""}, {true, " ,", " ", ","}, {true, "", "", ""}, {true, ",", "", ","}} {
				for _, pre := range sides {
					for _, post := range sides {
						k++
						if k%nsh != sh {
							continue
						}
						for ai, at := range ats {
							for _, via := range []string{"ast", "parse"} {
								c := mkC14(cfg.val, cfg.set, via)
								c.Args = args
								c.Segs = append(append(append([]ref.Seg{}, pre...), at), post...)
								if k%5 == 0 {
									// twice in one word (the second time in another spelling)
									c.Segs = append(append(c.Segs, ats[(ai+k/5)%len(ats)]), pre...)
								}
								if err := checkC14(c); err != nil {
									fail(t, "C14", "split", c, "%v", err)
								}
								n++
							}
						}
					}
				}
			}
		}
		st.EvalN(n, n)
		st.ClassN("at_and_star_with_parameters_inside_a_word", n)
		n = 0
		for _, val := range []string{":", ",", " ", "x", ": ", "\t,"} {
			for _, null := range []bool{false, true} {
				for _, pre := range sides {
					k++
					if k%nsh != sh {
						continue
					}
					for _, extra := range []string{"", val, "a" + val + "b c", " a" + val} {
						for _, via := range []string{"ast", "parse"} {
							c := mkC14("", null, via)
							c.AssignIFS = val
							c.Segs = append([]ref.Seg{}, pre...)
							if extra != "" {
								c.Segs = append(c.Segs, ref.Seg{Text: extra})
							}
							if err := checkC14(c); err != nil {
								fail(t, "C14", "split", c, "%v", err)
							}
							n++
						}
					}
				}
			}
		}
		st.EvalN(n, n)
		st.ClassN("word_that_assigns_ifs", n)
		// the length of a parameter inside double-quotes is quoted text like
		// any other, also when IFS holds one of its digits
		n = 0
		lsyms := []ref.Seg{{Text: "a"}, {Text: "0"}, {Text: " "}, {Text: "10", Quoted: true, Style: `"#`}, {Text: "0", Quoted: true, Style: `"#`},
			{Text: "101", Quoted: true, Style: `"#`}, {Text: "1 0", Quoted: true, Style: "'"}, {Text: "1"}}
		var lrec func(prefix []ref.Seg)
		lrec = func(prefix []ref.Seg) {
			k++
			styled := false
			for _, sg := range prefix {
				styled = styled || sg.Style == `"#`
			}
			if styled && k%nsh == sh {
				for _, ifs := range []string{"0", " 0", "1", "01", "1 "} {
					for _, via := range []string{"ast", "parse"} {
						c := mkC14(ifs, true, via)
						c.Segs = append([]ref.Seg{}, prefix...)
						if err := checkC14(c); err != nil {
							fail(t, "C14", "split", c, "%v", err)
						}
						n++
					}
				}
			}
			if len(prefix) == 3 {
				return
			}
			for _, sg := range lsyms {
				lrec(append(append([]ref.Seg{}, prefix...), sg))
			}
		}
		lrec(nil)
		st.EvalN(n, n)
		st.ClassN("dquoted_length_with_digits_in_ifs", n)
		st.Note("\"$@\", $@, $* and \"$*\" with 1-3 positional parameters (empty ones among them, also in last place) between 0-2 segments on either side, once or twice in a word, x 4 IFS settings; words that end in ${IFS:=value} with IFS unset or null beforehand (6 values), split with the value they assign; both as AST and as parsed source")
	}

	if sh == 0 {
		k := 0
		for _, e := range []string{":", "", ",x", "a"} {
			for _, v := range []string{"a:b c", "x,y\tz", " lead", "a"} {
				c := c14Fresh{EnvIFS: e, Value: v}
				if err := checkC14Fresh(c); err != nil {
					fail(t, "C14", "fresh", c, "%v", err)
				}
				k++
			}
		}
		st.EvalN(int64(k), int64(k))
		st.ClassN("new_environment_with_ifs_in_the_process_environment", int64(k))
	}

	// (a') results of arithmetic expansions are text of the word like any
	// other: unquoted ones are cut at IFS characters (digits, the minus sign)
	if sh == 0 {
		ariths := []ref.Seg{{Text: "105", Expr: "100+5"}, {Text: "-105", Expr: "0-105"}, {Text: "1005", Expr: "1005"}, {Text: "0", Expr: "5-5"}, {Text: "50", Expr: "5*10"}}
		others := []ref.Seg{{Text: "a"}, {Text: "0"}, {Text: "x0y", Quoted: true}, {Quoted: true}, {Text: " "}}
		k := 0
		for _, ifs := range []string{"0", "5", "-0", " 0", "1", " \t\n"} {
			for _, a := range ariths {
				for _, q := range []bool{false, true} {
					a.Quoted = q
					for _, pre := range append([]ref.Seg{{}}, others...) {
						for _, post := range append([]ref.Seg{{}}, others...) {
							for _, via := range []string{"ast", "parse"} {
								c := mkC14(ifs, true, via)
								if pre.Text != "" || pre.Quoted {
									c.Segs = append(c.Segs, pre)
								}
								c.Segs = append(c.Segs, a)
								if post.Text != "" || post.Quoted {
									c.Segs = append(c.Segs, post)
								}
								if err := checkC14(c); err != nil {
									fail(t, "C14", "split", c, "%v", err)
								}
								st.EvalN(1, 1)
								k++
							}
						}
					}
				}
			}
		}
		st.ClassN("arithmetic_results", int64(k))
		st.Note("%d words with an arithmetic expansion (unquoted / double-quoted, alone or between other segments) under IFS values that contain digits or the minus sign", k)
	}

	// (b) random longer words
	n := 1000000
	if thorough() {
		n = 30000000
	}
	n /= nsh
	prop := func(rt *rapid.T) {
		cfg := rapid.SampledFrom(c14Cfgs).Draw(rt, "ifs")
		ifs := cfg.val
		if !cfg.set {
			ifs = " \t\n"
		}
		alpha := []string{"a", "b", "z", "é", "\v", "日"}
		for j := range ifs {
			_, w := utf8.DecodeRuneInString(ifs[j:])
			alpha = append(alpha, ifs[j:j+w], ifs[j:j+w])
		}
		alpha = append(alpha, " ", ",", ":", "\t", "\n", `\`, `a\`)
		if strings.Contains(ifs, "\xff") {
			alpha = append(alpha, "\xff", "\xff\xff", "\xfe", "\uFFFD", "\x80")
		}
		if strings.Contains(ifs, "\uFFFD") {
			alpha = append(alpha, "\xff", "\xc3", "a\xffb", "\uFFFD")
		}
		for _, r := range ifs {
			if r >= 0x80 && r != utf8.RuneError {
				// the bytes of a multi-byte IFS character, each on its own, are other characters
				// (continuation bytes only: a stray lead byte in front of one
				// in the next segment would spell a character after all)
				for _, b := range []byte(string(r)) {
					if b < 0xc0 {
						alpha = append(alpha, string([]byte{b}))
					}
				}
			}
		}
		for _, r := range ifs {
			if r > 0xff && r != utf8.RuneError {
				// the ASCII character that shares its low byte, and its neighbour in the same block
				alpha = append(alpha, string(rune(r&0x7f)), string(r+1), string(rune(r&0xff)))
			}
		}
		tilde := rapid.IntRange(0, 9).Draw(rt, "tilde") == 0
		text := rapid.Custom(func(t *rapid.T) string {
			return strings.Join(rapid.SliceOfN(rapid.SampledFrom(alpha), 0, 5).Draw(t, "text"), "")
		})
		c := mkC14(cfg.val, cfg.set, rapid.SampledFrom([]string{"ast", "parse"}).Draw(rt, "via"))
		k := rapid.IntRange(0, 9).Draw(rt, "nseg")
		if rapid.IntRange(0, 49).Draw(rt, "long") == 0 {
			// a field of many parts
			k = rapid.IntRange(60, 140).Draw(rt, "nseg_long")
			st.Class("word_with_60_to_140_segments")
		}
		for i := 0; i < k; i++ {
			sg := ref.Seg{Text: text.Draw(rt, "seg"), Quoted: rapid.Bool().Draw(rt, "quoted")}
			if sg.Quoted {
				sg.Style = rapid.SampledFrom([]string{"", "'", `"`, `\`, "$", `"-`}).Draw(rt, "style")
			} else if sg.Text == "" {
				sg.Style = rapid.SampledFrom([]string{"", "@", `"@`}).Draw(rt, "style")
			}
			c.Segs = append(c.Segs, sg)
		}
		if tilde && c.Via == "ast" {
			// a tilde-prefix that names nobody stays as it is, unquoted
			c.Segs = append([]ref.Seg{{Text: "~_nobody_" + text.Draw(rt, "tildetail")}}, c.Segs...)
			st.Class("word_with_failing_tilde_prefix")
		}
		if err := checkC14(c); err != nil {
			fail(rt, "C14", "split", c, "%v", err)
		}
		st.Eval(c14NonTrivial(c), segString(c.Segs), c.ifs(), fmt.Sprint(c.IFSSet), c.Via)
		st.Class("random_via_" + c.Via)
		st.Sample(c)
	}
	runRapid(t, n, prop)
}
