package props

import (
	"fmt"
	"io"
	"reflect"
	"strings"
	"testing"
	"unicode/utf8"

	"github.com/hattya/go.sh/parser"
	"pgregory.net/rapid"

	"verif/gen"
	"verif/oracle"
)

// C07 — one call consumes exactly one complete command from the stream.

type c07Item struct {
	Text     string   `json:"text"`     // the text of one complete command (or a blank line)
	Blank    bool     `json:"blank"`    // a blank line: the call returns nothing
	Want     string   `json:"want"`     // Exact skeleton of the command
	Comments []string `json:"comments"` // comments inside the command
}

type c07Case struct {
	Items  []c07Item `json:"items"`
	Reader string    `json:"reader"` // "strings" or "counting"
}

// countingScanner is a RuneScanner that is neither a strings.Reader nor a
// bufio.Reader and keeps its own offset.
type countingScanner struct {
	s        string
	off      int
	lastSize int
	reads    int
}

func (c *countingScanner) ReadRune() (rune, int, error) {
	c.reads++
	if c.off >= len(c.s) {
		c.lastSize = 0
		return 0, 0, io.EOF
	}
	r, w := utf8.DecodeRuneInString(c.s[c.off:])
	c.off += w
	c.lastSize = w
	return r, w, nil
}

func (c *countingScanner) UnreadRune() error {
	if c.lastSize == 0 {
		return fmt.Errorf("countingScanner: nothing to unread")
	}
	c.off -= c.lastSize
	c.lastSize = 0
	return nil
}

func checkC07(c c07Case) error {
	var all strings.Builder
	for _, it := range c.Items {
		all.WriteString(it.Text)
	}
	src := all.String()
	kind := c.Reader
	if kind == "strings" {
		kind = "strings.Reader"
	}
	rdAny, offset := mkSource(kind, src)
	rd := rdAny.(io.RuneScanner)
	boundary := 0
	for i, it := range c.Items {
		cmds, comments, err := parser.ParseCommands(nil, "c07", rd)
		boundary += len(it.Text)
		where := fmt.Sprintf("call %d of %d (text %q) on stream %q", i+1, len(c.Items), it.Text, src)
		if err != nil {
			return fmt.Errorf("%s: error %v", where, err)
		}
		if got := offset(); got != boundary {
			return fmt.Errorf("%s: the reader is at offset %d, the command ends at %d (rest %q)", where, got, boundary, src[min(got, len(src)):])
		}
		if it.Blank {
			if len(cmds) != 0 || len(comments) != 0 {
				return fmt.Errorf("%s: a blank line returned %d commands, %d comments", where, len(cmds), len(comments))
			}
			continue
		}
		if len(cmds) != 1 {
			return fmt.Errorf("%s: %d commands, want 1", where, len(cmds))
		}
		if got := oracle.Command(cmds[0], oracle.Exact); got != it.Want {
			return fmt.Errorf("%s: wrong command\ndiff: %s", where, firstDiff(got, it.Want))
		}
		if gc := oracle.Comments(comments); !(len(gc) == 0 && len(it.Comments) == 0) && !reflect.DeepEqual(gc, it.Comments) {
			return fmt.Errorf("%s: comments %q, want %q", where, gc, it.Comments)
		}
		// the same text parsed alone gives the same result
		alone, _, err := parser.ParseCommands(nil, "c07", it.Text)
		if err != nil || len(alone) != 1 || oracle.Command(alone[0], oracle.Exact) != it.Want {
			return fmt.Errorf("%s: parsing the command's text alone gives a different result (%v)", where, err)
		}
	}
	// a further call returns nothing and leaves the reader at the end
	cmds, comments, err := parser.ParseCommands(nil, "c07", rd)
	if err != nil || len(cmds) != 0 || len(comments) != 0 || offset() != len(src) {
		return fmt.Errorf("call after the last command of %q: %d commands, %d comments, err %v, offset %d of %d", src, len(cmds), len(comments), err, offset(), len(src))
	}
	return nil
}

func init() { reg("C07", "stream", checkC07) }

func TestC07(t *testing.T) {
	st := newStats("C07")
	defer st.Write()
	_, nsh := shard()
	n := 150000
	if thorough() {
		n = 1500000
	}
	n /= nsh
	prop := func(rt *rapid.T) {
		k := rapid.IntRange(1, 8).Draw(rt, "ncommands")
		var c c07Case
		c.Reader = rapid.SampledFrom(scannerKinds).Draw(rt, "reader")
		special := 0
		for i := 0; i < k; i++ {
			if rapid.IntRange(0, 5).Draw(rt, "blank") == 0 {
				c.Items = append(c.Items, c07Item{Text: rapid.SampledFrom([]string{"\n", "\n", "  \n", "\t\n"}).Draw(rt, "blankline"), Blank: true})
				st.Class("blank_line")
				continue
			}
			o := genOpts()
			o.MaxDepth = rapid.IntRange(1, 3).Draw(rt, "maxdepth")
			o.Budget = rapid.IntRange(1, 6).Draw(rt, "budget")
			p := gen.Complete(gen.RapidChooser{T: rt}, o)
			var lay gen.Layout = gen.Canonical{}
			if rapid.IntRange(0, 2).Draw(rt, "layout") != 0 {
				lay = gen.RandomLayout{T: rt, Comments: true, Conts: true, Linebreaks: true}
			}
			r := gen.Render(p.Stream, lay)
			text := r.Src
			if tk := p.Stream.Toks[len(p.Stream.Toks)-1]; tk.Kind != gen.KNewline && i < k-1 {
				text += "\n" // only the last command may end without a newline
			}
			if strings.Contains(strings.TrimRight(text, "\n"), "\n") || p.Feat["heredoc"] > 0 || len(r.Comments) > 0 {
				special++
			}
			if p.Feat["heredoc"] > 0 {
				st.Class("command_with_heredoc")
			}
			if len(r.Comments) > 0 {
				st.Class("command_with_comment")
			}
			if !strings.HasSuffix(text, "\n") {
				st.Class("last_command_without_newline")
			}
			comments := commentSkels(r.Comments)
			if rapid.IntRange(0, 4).Draw(rt, "leading_comment_lines") == 0 {
				// comment lines in front of the command belong to the same call
				var lead []string
				for j := rapid.IntRange(1, 2).Draw(rt, "nlead"); j > 0; j-- {
					ct := rapid.SampledFrom([]string{" c", "", " ! x", " ends in \\", "x"}).Draw(rt, "leadtext")
					text = rapid.SampledFrom([]string{"", " ", "\t"}).Draw(rt, "leadindent") + "#" + ct + "\n" + text
					lead = append([]string{"#" + fmt.Sprintf("%q", ct)}, lead...)
				}
				comments = append(lead, comments...)
				st.Class("command_behind_comment_lines")
			}
			c.Items = append(c.Items, c07Item{Text: text, Want: p.Skel, Comments: comments})
		}
		// every item is a complete command of the grammar: a call that fails
		// has not consumed "precisely the text of one complete command"
		jr.begin("C07", "stream", c)
		err := checkC07(c)
		jr.end()
		if err != nil {
			fail(rt, "C07", "stream", c, "%v", err)
		}
		var key strings.Builder
		for _, it := range c.Items {
			key.WriteString(it.Text)
			key.WriteByte(0)
		}
		st.Eval(len(c.Items) >= 3 && special >= 1, key.String(), c.Reader)
		st.ClassN("boundaries_checked", int64(len(c.Items)+1))
		st.Class("reader_" + c.Reader)
		st.Sample(map[string]any{"reader": c.Reader, "commands": func() []string {
			var s []string
			for _, it := range c.Items {
				s = append(s, it.Text)
			}
			return s
		}()})
	}
	runRapid(t, n, prop)
	st.Note("histories: 1-8 generated complete commands (single-line, multi-line compound, with here-documents, with trailing comments, last one with or without final newline) and blank lines concatenated into one stream, consumed by successive ParseCommands calls through one io.RuneScanner (strings.Reader, bytes.Reader, bytes.Buffer, a small bufio.Reader, a custom counting scanner, one whose UnreadRune steps back after a failed read, one that returns a rune together with io.EOF); after every call the reader offset must equal the model's boundary")
}
