package props

import (
	"fmt"
	"reflect"
	"strings"
	"testing"

	"github.com/hattya/go.sh/parser"
	"pgregory.net/rapid"

	"verif/gen"
	"verif/oracle"
)

// C09 — layout is inert.

type c09Case struct {
	Base     string   `json:"base"`     // canonical rendering
	Variant  string   `json:"variant"`  // the same program after the layout transformation(s)
	Comments []string `json:"comments"` // comments the transformation inserted, in order
	What     string   `json:"what"`     // description of the transformation(s)
}

// c09Kinds: the variant is read through a rotating source kind (the ones that
// behave differently at the end of the input included).
var c09Kinds = []string{"", "lenient", "garbage", "bufio.Reader", ""}

func sepSkel(src string) (string, []string, error) {
	return sepSkelKind(src, "")
}

func sepSkelKind(src, kind string) (string, []string, error) {
	source, _ := mkSource(kind, src)
	cmds, comments, err := parser.ParseCommands(nil, "c09", source)
	if err != nil {
		return "", nil, err
	}
	return strings.Join(oracle.Commands(cmds, oracle.Sep), " ;; "), oracle.Comments(comments), nil
}

var c09Cache struct {
	base, want string
}

func checkC09(c c09Case) error {
	if c09Cache.base != c.Base || c.Base == "" {
		want, _, err := sepSkel(c.Base)
		if err != nil {
			// whether a program is accepted at all is C02's business, unless
			// layout alone decides it
			if _, _, verr := sepSkel(c.Variant); verr == nil {
				return fmt.Errorf("%s: the program is rejected as it stands (%v) and accepted with the layout changed\nbase:    %q\nvariant: %q", c.What, err, c.Base, c.Variant)
			}
			return fmt.Errorf("harness: base program not accepted: %v\nbase: %q", err, c.Base)
		}
		c09Cache.base, c09Cache.want = c.Base, want
	}
	want := c09Cache.want
	got, comments, err := sepSkelKind(c.Variant, c09Kinds[(len(c.Variant)+len(c.What))%len(c09Kinds)])
	if err != nil {
		return fmt.Errorf("%s: the transformed program is rejected: %v\nbase:    %q\nvariant: %q", c.What, err, c.Base, c.Variant)
	}
	if got != want {
		return fmt.Errorf("%s: the parsed program changed\nbase:    %q\nvariant: %q\ndiff: %s", c.What, c.Base, c.Variant, firstDiff(got, want))
	}
	if !(len(comments) == 0 && len(c.Comments) == 0) && !reflect.DeepEqual(comments, c.Comments) {
		return fmt.Errorf("%s: comments returned %q, inserted %q\nvariant: %q", c.What, comments, c.Comments, c.Variant)
	}
	return nil
}

func init() {
	reg("C09", "layout", checkC09)
}

// mapLayout is the canonical layout with the given gaps replaced.
type mapLayout map[int]gen.GapText

func (m mapLayout) Gap(b gen.Boundary) gen.GapText {
	if g, ok := m[b.Seq]; ok {
		if g.Blanks == "" {
			g.Blanks = b.Need
		}
		return g
	}
	return gen.GapText{Blanks: b.Need}
}

// boundaries collects the boundaries of a program.
type boundaryCollector struct{ bs []gen.Boundary }

func (c *boundaryCollector) Gap(b gen.Boundary) gen.GapText {
	c.bs = append(c.bs, b)
	return gen.GapText{Blanks: b.Need}
}

type c09Transform struct {
	kind string
	seq  int  // boundary (Seq) or token index for "semi"
	bq   bool // the boundary lies inside a backquote substitution
}

// applicable lists every single transformation of the program.
func c09Applicable(p *gen.Program) ([]c09Transform, []gen.Boundary) {
	col := &boundaryCollector{}
	gen.Render(p.Stream, col)
	var ts []c09Transform
	for _, b := range col.bs {
		if b.ContOnly {
			ts = append(ts, c09Transform{kind: "continuation", seq: b.Seq})
			continue
		}
		if b.Glue {
			continue
		}
		ts = append(ts, c09Transform{kind: "blanks", seq: b.Seq}, c09Transform{kind: "tab", seq: b.Seq})
		if !(excluded["cont_before_linebreak_newline"] && b.Next != nil && b.Next.Kind == gen.KNewline && b.Prev != nil && b.Prev.LinebreakAfter) {
			ts = append(ts, c09Transform{kind: "continuation", seq: b.Seq}, c09Transform{kind: "blank+continuation", seq: b.Seq}, c09Transform{kind: "continuation+blank", seq: b.Seq})
		}
		if b.BeforeNewline && (b.Stream.Open != "`" || b.AtEnd) {
			ts = append(ts, c09Transform{kind: "comment", seq: b.Seq, bq: b.Stream.Open == "`"})
		}
		if b.Linebreak {
			ts = append(ts, c09Transform{kind: "blankline", seq: b.Seq})
			if b.Stream.Open != "`" {
				ts = append(ts, c09Transform{kind: "commentline", seq: b.Seq})
			}
		}
	}
	i := 0
	p.Stream.Walk(func(st *gen.Stream, _ int, t *gen.Tok) {
		if t.SemiNL {
			ts = append(ts, c09Transform{kind: "semi", seq: i})
		}
		i++
	})
	return ts, col.bs
}

// c09Apply renders the program with the transformations applied.
func c09Apply(p *gen.Program, ts []c09Transform) (string, []string, string) {
	lay := mapLayout{}
	stream := p.Stream
	var desc []string
	semis := map[int]bool{}
	for k, t := range ts {
		desc = append(desc, fmt.Sprintf("%s@%d", t.kind, t.seq))
		switch t.kind {
		case "blanks":
			lay[t.seq] = gen.GapText{Blanks: "   "}
		case "tab":
			lay[t.seq] = gen.GapText{Blanks: "\t"}
		case "continuation":
			lay[t.seq] = gen.GapText{Cont: true}
		case "blank+continuation":
			lay[t.seq] = gen.GapText{Blanks: " ", Cont: true}
		case "continuation+blank":
			lay[t.seq] = gen.GapText{Cont: true, After: " "}
		case "comment":
			// the spelling of the comment varies with the place it stands at
			v := k + t.seq
			lay[t.seq] = gen.GapText{Comment: fmt.Sprintf(" c%d é;|&", k)}
			switch {
			case v%8 == 3:
				lay[t.seq] = gen.GapText{Comment: gen.EmptyComment}
			case v%8 == 1 && !t.bq:
				// a comment ends at the newline, whatever stands in front of it
				lay[t.seq] = gen.GapText{Comment: fmt.Sprintf(" c%d ends in \\", k)}
			case v%8 == 1 && t.bq:
				// an escaped backquote does not end the substitution, in a comment or elsewhere
				lay[t.seq] = gen.GapText{Comment: fmt.Sprintf(" c%d \\` x", k)}
			case v%8 == 6:
				// (two backslashes escape nothing)
				lay[t.seq] = gen.GapText{Comment: fmt.Sprintf(" c%d \\\\", k)}
			case v%8 == 5:
				// a carriage-return is a character of the text like any other
				lay[t.seq] = gen.GapText{Comment: fmt.Sprintf(" c%d ends in cr\r", k)}
			case v%8 == 7:
				lay[t.seq] = gen.GapText{Comment: "\r"}
			}
		case "blankline":
			lay[t.seq] = gen.GapText{Newlines: 2}
		case "commentline":
			lay[t.seq] = gen.GapText{Newlines: 2, NLComments: []string{fmt.Sprintf(" trailing %d", k), fmt.Sprintf(" own line %d `x` $y", k)}}
			if (k+t.seq)%3 == 1 {
				lay[t.seq] = gen.GapText{Newlines: 2, NLComments: []string{fmt.Sprintf(" trailing %d \\", k), "\\"}}
			}
			if (k+t.seq)%3 == 2 {
				lay[t.seq] = gen.GapText{Newlines: 2, NLComments: []string{fmt.Sprintf(" trailing %d\r", k), "\r"}}
			}
		case "semi":
			semis[t.seq] = true
		}
	}
	if len(semis) > 0 {
		stream = p.Stream.Clone()
		i := 0
		stream.Walk(func(st *gen.Stream, idx int, t *gen.Tok) {
			if semis[i] && t.SemiNL {
				st.Toks[idx] = &gen.Tok{Kind: gen.KNewline, LinebreakAfter: true, Depth: t.Depth}
			}
			i++
		})
	}
	r := gen.Render(stream, lay)
	return r.Src, commentSkels(r.Comments), strings.Join(desc, ",")
}

func c09NonTrivial(t c09Transform, bs []gen.Boundary) bool {
	if t.kind == "semi" {
		return true // a separator inside a construct
	}
	for _, b := range bs {
		if b.Seq != t.seq {
			continue
		}
		for _, tk := range []*gen.Tok{b.Prev, b.Next} {
			if tk != nil && (tk.Depth > 0 || tk.Kind == gen.KOp || tk.Kind == gen.KReserved) {
				return true
			}
		}
		return !b.Top
	}
	return false
}

func TestC09(t *testing.T) {
	st := newStats("C09")
	defer st.Write()
	_, nsh := shard()

	// comments inside command substitutions (the generator writes comments only
	// before a newline of the program itself)
	if sh, _ := shard(); sh == 0 {
		q := func(s string) string { return "#" + fmt.Sprintf("%q", s) }
		for _, c := range []c09Case{
			{Base: "echo `echo hi`\n", Variant: "echo `echo hi # c`\n", Comments: []string{q(" c")}},
			{Base: "echo `a` b\n", Variant: "echo `a #c` b\n", Comments: []string{q("c")}},
			{Base: "echo `a; b`\n", Variant: "echo `a; b #`\n", Comments: []string{q("")}},
			{Base: "x=`a && b`\n", Variant: "x=`a && # c\nb`\n", Comments: []string{q(" c")}},
			{Base: "x=`a && b`\n", Variant: "x=`a && b # c`\n", Comments: []string{q(" c")}},
			{Base: "echo $(a `b` c)\n", Variant: "echo $(a `b #x` c)\n", Comments: []string{q("x")}},
			{Base: "echo \"`a`\"\n", Variant: "echo \"`a # c`\"\n", Comments: []string{q(" c")}},
			{Base: "echo $(a\n)\n", Variant: "echo $(a # don`t\n)\n", Comments: []string{q(" don`t")}},
			{Base: "echo $(a\n) `b`\n", Variant: "echo $(a # )\n) `b # $(`\n", Comments: []string{q(" )"), q(" $(")}},
			{Base: "a | b\n", Variant: "a | # x`y\nb\n", Comments: []string{q(" x`y")}},
			// a substitution inside an arithmetic expansion
			{Base: "echo $(( $(a\n) + 1 ))\n", Variant: "echo $(( $(a # c\n) + 1 ))\n", Comments: []string{q(" c")}},
			{Base: "echo $((1+`a\n`))\n", Variant: "echo $((1+`a # c\n`))\n", Comments: []string{q(" c")}},
			{Base: "echo \"$(( $(a\n) ))\" b\n", Variant: "echo \"$(( $(a #x\n) ))\" b # y\n", Comments: []string{q("x"), q(" y")}},
			{Base: "echo $(( $(a $(b\n)\n) ))\n", Variant: "echo $(( $(a $(b # in\n) # out\n) ))\n", Comments: []string{q(" in"), q(" out")}},
			{Base: "(( $(a\n) ))\n", Variant: "(( $(a # c\n) ))\n", Comments: []string{q(" c")}},
			{Base: "x=${y:-$(( $(a\n) ))}\n", Variant: "x=${y:-$(( $(a # c\n) ))}\n", Comments: []string{q(" c")}},
			{Base: "cat <<E\n$(( $(a\n) ))\nE\n", Variant: "cat <<E\n$(( $(a # c\n) ))\nE\n", Comments: []string{q(" c")}},
			// comments behind an operator inside backquotes (they are collected with the linebreak), with escaped backquotes in them
			{Base: "echo `a &&\n b`\n", Variant: "echo `a && # the \\`date\\` of today\n b`\n", Comments: []string{q(" the \\`date\\` of today")}},
			{Base: "echo `a |\nb`\n", Variant: "echo `a | # \\`\nb`\n", Comments: []string{q(" \\`")}},
			{Base: "echo `a ||\nb`\n", Variant: "echo `a || #\\`x\\\\\nb`\n", Comments: []string{q("\\`x\\\\")}},
			{Base: "echo `case x in\na) b;;\nesac`\n", Variant: "echo `case x in # \\`1\na) # \\`2\nb;; # \\`3\nesac`\n", Comments: []string{q(" \\`1"), q(" \\`2"), q(" \\`3")}},
			{Base: "echo `for i in a\ndo b\ndone`\n", Variant: "echo `for i in a # \\`1\ndo b # \\`2\ndone`\n", Comments: []string{q(" \\`1"), q(" \\`2")}},
			{Base: "echo `f()\n{ a; }`\n", Variant: "echo `f() # \\`\n{ a; }`\n", Comments: []string{q(" \\`")}},
			// a comment line in front of the command whose text begins with an exclamation mark
			{Base: "echo a\n", Variant: "#!/bin/sh\necho a\n", Comments: []string{q("!/bin/sh")}},
			{Base: "echo a\n", Variant: "#!\necho a\n", Comments: []string{q("!")}},
			{Base: "foo\n", Variant: "#!!\n#! second\nfoo\n", Comments: []string{q("!!"), q("! second")}},
			{Base: "echo a\n", Variant: "#!/bin/sh\n\n# c\necho a # !\n", Comments: []string{q("!/bin/sh"), q(" c"), q(" !")}},
		} {
			c.What = "comment inside a command substitution"
			if err := checkC09(c); err != nil {
				fail(t, "C09", "layout", c, "%v", err)
			}
			st.EvalN(1, 1)
			st.Class("comment_inside_substitution")
		}
	}

	n := 6000
	if thorough() {
		n = 150000
	}
	n /= nsh
	prop := func(rt *rapid.T) {
		o := genOpts()
		o.MaxDepth = rapid.IntRange(1, 3).Draw(rt, "maxdepth")
		o.Budget = rapid.IntRange(2, 8).Draw(rt, "budget")
		p := gen.Complete(gen.RapidChooser{T: rt}, o)
		base := gen.Render(p.Stream, gen.Canonical{}).Src
		ts, bs := c09Applicable(p)
		one := func(sel []c09Transform) {
			variant, comments, what := c09Apply(p, sel)
			c := c09Case{Base: base, Variant: variant, Comments: comments, What: what}
			jr.begin("C09", "layout", c)
			err := checkC09(c)
			jr.end()
			if err != nil && strings.HasPrefix(err.Error(), "harness:") {
				st.Class("skipped_source_not_accepted")
				return
			}
			if err != nil {
				fail(rt, "C09", "layout", c, "%v", err)
			}
			nt := false
			for _, t := range sel {
				nt = nt || c09NonTrivial(t, bs)
				st.Class("transform:" + t.kind)
			}
			st.Eval(nt, variant)
			if len(sel) > 1 {
				st.Class("combined_transformations")
			}
			st.Sample(map[string]any{"base": base, "variant": variant, "what": what})
		}
		// every single transformation of this program
		for _, t := range ts {
			one([]c09Transform{t})
		}
		// a combination of up to 6
		if len(ts) > 1 {
			k := rapid.IntRange(2, 6).Draw(rt, "ncombine")
			var sel []c09Transform
			used := map[string]bool{}
			for i := 0; i < k; i++ {
				t := ts[rapid.IntRange(0, len(ts)-1).Draw(rt, "pick")]
				key := fmt.Sprint(t.kind == "semi", t.seq)
				if used[key] {
					continue
				}
				used[key] = true
				sel = append(sel, t)
			}
			one(sel)
		}
		featStats(st, p)
	}
	runRapid(t, n, prop)
	st.Note("each generated program (canonical rendering as baseline) x every token boundary x {extra blanks, tab, backslash-newline, comment before a newline / at end of input, blank lines, comment lines where the grammar has linebreak} and every ';' separator inside a construct exchanged for a newline; plus one random combination of up to 6 per program")
}
