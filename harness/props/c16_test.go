package props

import (
	"fmt"
	"os"
	"path/filepath"
	"reflect"
	"sort"
	"strings"
	"syscall"
	"testing"

	"github.com/hattya/go.sh/pattern"
	"pgregory.net/rapid"

	"verif/ref"
)

// C16 — pathname expansion returns exactly the existing matching paths, sorted.

type c16Entry struct {
	Path   string `json:"path"`
	Kind   string `json:"kind"` // file | dir | link | fifo
	Target string `json:"target,omitempty"`
}

type c16Case struct {
	Tree    []c16Entry `json:"tree"`
	Pattern string     `json:"pattern"`
	Abs     bool       `json:"abs"` // the pattern is to be prefixed with the tree's absolute path
	// AbsForm varies how that absolute path is written: 1 = the first slash
	// is escaped, 2 = every slash is escaped, 3 = the first slash is doubled,
	// 6 / 7 / 8 = three, four, three (one escaped) slashes in front
	AbsForm int `json:"abs_form,omitempty"`
	// Neighbours: Match is called with colliding arguments first
	Neighbours bool `json:"neighbours,omitempty"`
}

func buildTree(root string, tree []c16Entry) error {
	for _, e := range tree {
		p := filepath.Join(root, e.Path)
		switch e.Kind {
		case "dir":
			if err := os.MkdirAll(p, 0o755); err != nil {
				return err
			}
		case "link":
			os.MkdirAll(filepath.Dir(p), 0o755)
			if err := os.Symlink(e.Target, p); err != nil {
				return err
			}
		case "fifo":
			os.MkdirAll(filepath.Dir(p), 0o755)
			if err := syscall.Mkfifo(p, 0o644); err != nil {
				return err
			}
		default:
			os.MkdirAll(filepath.Dir(p), 0o755)
			if err := os.WriteFile(p, nil, 0o644); err != nil {
				return err
			}
		}
	}
	return nil
}

var c16Root string

// withTree builds the tree in a scratch directory, makes it the working
// directory and calls fn.
func withTree(tree []c16Entry, fn func(root string) error) error {
	// the tree lives alone in a private parent directory, so that patterns
	// matching ".." see a stable directory as well
	parent, err := os.MkdirTemp(outDir(), "c16-")
	if err != nil {
		return fmt.Errorf("harness: %v", err)
	}
	defer os.RemoveAll(parent)
	parent, _ = filepath.EvalSymlinks(parent)
	root := filepath.Join(parent, "p1", "p2", "p3", "p4", "p5", "p6", "tree")
	if err := os.MkdirAll(root, 0o755); err != nil {
		return fmt.Errorf("harness: %v", err)
	}
	if err := buildTree(root, tree); err != nil {
		return fmt.Errorf("harness: cannot build the tree: %v", err)
	}
	wd, _ := os.Getwd()
	if err := os.Chdir(root); err != nil {
		return fmt.Errorf("harness: %v", err)
	}
	defer os.Chdir(wd)
	return fn(root)
}

func checkC16InTree(root string, c c16Case) (skip string, err error) {
	pat := c.Pattern
	if c.Abs {
		r := root
		switch c.AbsForm {
		case 1:
			r = `\` + r
		case 2:
			r = strings.ReplaceAll(r, "/", `\/`)
		case 3:
			r = "/" + r
		case 6:
			r = "//" + r // three slashes
		case 7:
			r = "///" + r
		case 8:
			r = `/\/` + r // three, the one in the middle escaped
		case 4, 5:
			// the first component below "/" is not literal
			if i := strings.IndexByte(r[1:], '/'); i > 1 {
				first := r[1 : 1+i]
				if c.AbsForm == 4 {
					first = "[" + first[:1] + "]" + first[1:]
				} else {
					first = first[:len(first)-1] + "?"
				}
				r = "/" + first + r[1+i:]
			}
		}
		pat = r + "/" + pat
	}
	want, ok := ref.Glob(pat)
	if c.Neighbours {
		// calls whose arguments run into Glob's under a careless cache key
		// (the mode Glob compiles with is Prefix|Suffix = 12)
		for _, comp := range strings.FieldsFunc(pat, func(r rune) bool { return r == '/' }) {
			for _, nb := range []struct {
				p string
				m pattern.Mode
			}{{"2" + comp, pattern.Smallest}, {comp, pattern.Prefix | pattern.Smallest}, {comp + "|x", pattern.Suffix | pattern.Largest}, {"12" + comp, 0}} {
				guard(func() error { pattern.Match([]string{nb.p}, nb.m, "2x"); return nil })
			}
		}
	}
	var got []string
	var gerr error
	if e := guard(func() error { got, gerr = pattern.Glob(pat); return nil }); e != nil {
		return "", fmt.Errorf("Glob(%q) %v", pat, e)
	}
	if !ok && gerr != nil {
		return "pattern_not_modelled", nil
	}
	if ok && gerr != nil {
		return "", fmt.Errorf("Glob(%q): unexpected error %v, want %q", pat, gerr, want)
	}
	// whatever the pattern: what is returned exists, is sorted, has no duplicates
	for _, p := range got {
		if _, err := os.Lstat(p); err != nil {
			return "", fmt.Errorf("Glob(%q) returned %q, which does not exist (all: %q, want %q)", pat, p, got, want)
		}
	}
	if !sort.StringsAreSorted(got) {
		return "", fmt.Errorf("Glob(%q) = %q is not in ascending byte order", pat, got)
	}
	for i := 1; i < len(got); i++ {
		if got[i] == got[i-1] {
			return "", fmt.Errorf("Glob(%q) = %q contains %q twice", pat, got, got[i])
		}
	}
	if !ok {
		return "pattern_not_modelled", nil
	}
	if !(len(got) == 0 && len(want) == 0) && !reflect.DeepEqual(got, want) {
		return "", fmt.Errorf("Glob(%q) = %q, want %q", pat, got, want)
	}
	return "", nil
}

func checkC16(c c16Case) error {
	return withTree(c.Tree, func(root string) error {
		_, err := checkC16InTree(root, c)
		if err != nil {
			return fmt.Errorf("%v\ntree: %+v", err, c.Tree)
		}
		return nil
	})
}

func init() { reg("C16", "glob", checkC16) }

var c16Names = []string{"a", "b", "ab", "abc", "a-b", "a.d", ".h", ".hid", "é", "日本", "x*", "q?", "[z]", "a b", "sub", "dir", "d2", "A", "a+", "(p)", "t^", "$v", "{c}", "e|f", "-", "~", "a{2}", "aa", "aab", "a{2}b", "x{1,}", "{2}", "b{1,2}c", "bbc", "*a", "a*b", "**", "*.go", `a\b`, `\`, "...", "....", "..a", ".. ",
	// long names: the pattern made from them by escaping or bracketing every character is longer than NAME_MAX
	"L" + strings.Repeat("o", 130), strings.Repeat("*", 100), strings.Repeat("ab", 60)}

func c16NonTrivial(p string) bool {
	comps := strings.Split(strings.Trim(p, "/"), "/")
	for i, c := range comps {
		if strings.ContainsAny(c, "*?[") && i < len(comps)-1 {
			return true
		}
	}
	return strings.HasSuffix(p, "/") || strings.Contains(p, "/.") || strings.HasPrefix(p, ".") || strings.Contains(p, "//")
}

func TestC16(t *testing.T) {
	st := newStats("C16")
	defer st.Write()
	_, nsh := shard()
	ntrees := 4800
	if thorough() {
		ntrees = 160000
	}
	ntrees /= nsh
	if ntrees < 4 {
		ntrees = 4
	}
	// a wide tree under a small limit of open files: every directory a pattern
	// component visits has to be closed again before the next one is opened
	if sh, _ := shard(); sh == 0 {
		var lim, old syscall.Rlimit
		if err := syscall.Getrlimit(syscall.RLIMIT_NOFILE, &old); err == nil {
			lim = old
			lim.Cur = 64
			if syscall.Setrlimit(syscall.RLIMIT_NOFILE, &lim) == nil {
				var tree []c16Entry
				for i := 0; i < 300; i++ {
					d := fmt.Sprintf("d%03d", i)
					tree = append(tree, c16Entry{Path: d, Kind: "dir"}, c16Entry{Path: d + "/f", Kind: "file"})
				}
				err := withTree(tree, func(root string) error {
					for _, pat := range []string{"*/f", "*/*", "d*/?", "d1*/f", "*/", "d00*/../d01*/f"} {
						c := c16Case{Tree: tree, Pattern: pat}
						if _, err := checkC16InTree(root, c); err != nil {
							fail(t, "C16", "glob", c, "%v\n(300 directories, at most 64 open files)", err)
						}
						st.EvalN(1, 1)
						st.Class("wide_tree_under_a_small_open_file_limit")
					}
					return nil
				})
				syscall.Setrlimit(syscall.RLIMIT_NOFILE, &old)
				if err != nil {
					t.Fatalf("INFRA: %v", err)
				}
			}
		}
	}
	// a directory with more entries than any one read of it returns
	if sh, _ := shard(); sh == 1%nsh {
		var tree []c16Entry
		tree = append(tree, c16Entry{Path: "big", Kind: "dir"})
		for i := 0; i < 2600; i++ {
			tree = append(tree, c16Entry{Path: fmt.Sprintf("big/f%04d", i), Kind: "file"})
		}
		err := withTree(tree, func(root string) error {
			for _, pat := range []string{"big/*", "big/f1*", "big/*9", "big/f??00", "big/f25[0-9]?", "*/f0000", "big/f2599"} {
				c := c16Case{Tree: nil, Pattern: pat}
				if _, err := checkC16InTree(root, c); err != nil {
					fail(t, "C16", "glob", c16Case{Tree: tree[:3], Pattern: pat}, "%v\n(a directory with 2600 entries)", err)
				}
				st.EvalN(1, 1)
				st.Class("directory_with_2600_entries")
			}
			return nil
		})
		if err != nil {
			t.Fatalf("INFRA: %v", err)
		}
	}
	prop := func(rt *rapid.T) {
		// a random tree
		var tree []c16Entry
		var dirs = []string{""}
		var all []string
		n := rapid.IntRange(2, 14).Draw(rt, "entries")
		for i := 0; i < n; i++ {
			parent := dirs[rapid.IntRange(0, len(dirs)-1).Draw(rt, "parent")]
			if strings.Count(parent, "/") >= 2 {
				parent = ""
			}
			name := rapid.SampledFrom(c16Names).Draw(rt, "name")
			p := name
			if parent != "" {
				p = parent + "/" + name
			}
			dup := false
			for _, q := range all {
				dup = dup || q == p
			}
			if dup {
				continue
			}
			all = append(all, p)
			switch rapid.IntRange(0, 8).Draw(rt, "kind") {
			case 7:
				// neither a file nor a directory
				tree = append(tree, c16Entry{Path: p, Kind: "fifo"})
			case 8:
				tree = append(tree, c16Entry{Path: p, Kind: "link", Target: "/dev/null"})
			case 0, 1, 2:
				tree = append(tree, c16Entry{Path: p, Kind: "file"})
			case 3, 4:
				tree = append(tree, c16Entry{Path: p, Kind: "dir"})
				dirs = append(dirs, p)
			case 5:
				tree = append(tree, c16Entry{Path: p, Kind: "link", Target: "nonexistent-target"})
			case 6:
				// a link to a directory of the tree (relative to the link's own directory)
				target := "."
				if len(dirs) > 1 {
					d := dirs[rapid.IntRange(1, len(dirs)-1).Draw(rt, "linkdir")]
					if rel, err := filepath.Rel(filepath.Dir("/"+p), "/"+d); err == nil {
						target = rel
					}
				}
				tree = append(tree, c16Entry{Path: p, Kind: "link", Target: target})
			}
		}
		npat := 60
		if thorough() {
			npat = 120
		}
		err := withTree(tree, func(root string) error {
			for k := 0; k < npat; k++ {
				// a pattern derived from one of the tree's own paths
				base := "nothing/here"
				if len(all) > 0 && rapid.IntRange(0, 9).Draw(rt, "existing") != 0 {
					base = all[rapid.IntRange(0, len(all)-1).Draw(rt, "base")]
				}
				var b strings.Builder
				for _, r := range base {
					if r == '/' {
						b.WriteString(rapid.SampledFrom([]string{"/", "/", "/", "//", `\/`}).Draw(rt, "slash"))
						continue
					}
					kind := rapid.IntRange(0, 11).Draw(rt, "gen")
					if len(base) > 40 {
						// a long name: only forms that still match one character each
						// (wildcards by the dozen would take the reference matcher for ever)
						kind = []int{2, 4, 2, 4, 4, 2, 7, 7, 7, 7, 7, 7}[kind]
					}
					switch kind {
					case 0:
						b.WriteString("?")
					case 1:
						b.WriteString("*")
					case 2:
						b.WriteString("[" + string(r) + "]")
					case 3:
						b.WriteString("[!" + string(r) + "]")
					case 4:
						b.WriteString(`\` + string(r))
					case 5:
						b.WriteString("[a-z]")
					case 6:
						// drop the character (a shorter pattern)
					default:
						if strings.ContainsRune(`*?[\`, r) {
							b.WriteString(`\`)
						}
						b.WriteRune(r)
					}
				}
				pat := b.String()
				switch rapid.IntRange(0, 9).Draw(rt, "decor") {
				case 0:
					pat += "/"
				case 1:
					pat = "./" + pat
				case 2:
					pat += "/*"
				case 3:
					pat = "*/" + pat
				case 4:
					pat += "/.."
				case 5:
					pat += "//"
				case 6:
					pat = ".*"
				case 7:
					if rapid.IntRange(0, 3).Draw(rt, "malformed") == 0 {
						// malformed: a trailing backslash, an unterminated bracket
						pat += rapid.SampledFrom([]string{`\`, "[", `/\`, "[a", `*\`}).Draw(rt, "malformed_tail")
					}
				}
				// never leave the scratch tree: no leading separator
				for strings.HasPrefix(pat, "/") || strings.HasPrefix(pat, `\/`) {
					pat = strings.TrimPrefix(strings.TrimPrefix(pat, `\`), "/")
				}
				c := c16Case{Tree: tree, Pattern: pat, Abs: rapid.IntRange(0, 7).Draw(rt, "abs") == 0}
				if c.Abs {
					c.AbsForm = rapid.SampledFrom([]int{0, 0, 1, 2, 3, 4, 5, 6, 7, 8}).Draw(rt, "abs_form")
				}
				c.Neighbours = rapid.IntRange(0, 7).Draw(rt, "neighbours") == 0
				if c.Neighbours {
					st.Class("glob_behind_colliding_match_calls")
				}
				skip, err := checkC16InTree(root, c)
				if err != nil {
					fail(rt, "C16", "glob", c, "%v\ntree: %+v", err, tree)
				}
				if skip != "" {
					st.Class("not_compared:" + skip)
				}
				st.Eval(skip == "" && c16NonTrivial(pat), fmt.Sprint(tree), pat, fmt.Sprint(c.Abs))
				if c.Abs {
					st.Class("absolute_pattern")
					if c.AbsForm == 1 || c.AbsForm == 2 {
						st.Class("absolute_pattern_escaped_first_slash")
					}
				}
				if k == 0 {
					st.Sample(map[string]any{"tree": tree, "pattern": pat, "abs": c.Abs})
				}
			}
			return nil
		})
		if err != nil {
			rt.Fatalf("%v", err)
		}
		st.Class("trees")
	}
	runRapid(t, ntrees, prop)
	st.Note("random directory trees (<= 3 levels; files, directories, dot files, dangling and directory symlinks, names with pattern and regexp metacharacters, blanks and multi-byte characters) x patterns derived from the tree's own paths by generalising characters to ? * [c] [!c] [a-z] \\c, dropping characters, plus trailing / repeated / escaped slashes, ./ and /.. components, */ and /* neighbours, .* and absolute forms; oracle walks the tree with the reference matcher")
}
