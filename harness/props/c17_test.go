package props

import (
	"fmt"
	"reflect"
	"regexp"
	"sort"
	"strings"
	"testing"
	"time"

	"github.com/hattya/go.sh/ast"
	"github.com/hattya/go.sh/interp"
	"github.com/hattya/go.sh/parser"
	"pgregory.net/rapid"

	"verif/gen"
	"verif/oracle"
)

// C17 — alias substitution equals textual replacement at command position
// and terminates.

type c17Case struct {
	Src     string            `json:"src"`
	Aliases map[string]string `json:"aliases"`
	Want    string            `json:"want"` // Exact skeleton of the unfolded program ("" = only termination is checked)
	Orig    string            `json:"orig"` // the unfolded program, for the reader
}

func checkC17(c c17Case) error {
	env := interp.NewExecEnv("sh")
	for k, v := range c.Aliases {
		env.Aliases[k] = v
	}
	type res struct {
		cmds []ast.Command
		err  error
	}
	done := make(chan res, 1)
	go func() {
		cmds, _, err := parser.ParseCommands(env, "c17", c.Src)
		done <- res{cmds, err}
	}()
	var r res
	select {
	case r = <-done:
	case <-time.After(30 * time.Second):
		return fmt.Errorf("alias substitution does not terminate within 30s\nsrc: %q\naliases: %q", c.Src, c.Aliases)
	}
	if c.Want == "" {
		return nil
	}
	if r.err != nil {
		return fmt.Errorf("the folded program is rejected: %v\nsrc: %q\naliases: %q\nunfolded: %q", r.err, c.Src, c.Aliases, c.Orig)
	}
	if len(r.cmds) != 1 {
		return fmt.Errorf("%d commands, want 1\nsrc: %q\naliases: %q", len(r.cmds), c.Src, c.Aliases)
	}
	if got := oracle.Command(r.cmds[0], oracle.Exact); got != c.Want {
		return fmt.Errorf("parsing with aliases differs from the textual replacement\nsrc: %q\naliases: %q\nunfolded: %q\ndiff: %s", c.Src, c.Aliases, c.Orig, firstDiff(got, c.Want))
	}
	return nil
}

func init() { reg("C17", "alias", checkC17) }

// c17UsedBehindBlank: some occurrence of the word txt stands directly behind
// an alias whose value ends in a blank (there it is examined).
func c17UsedBehindBlank(s *gen.Stream, aliases map[string]string, txt string) bool {
	found := false
	s.Walk(func(st *gen.Stream, i int, tk *gen.Tok) {
		if i == 0 || tk.Kind != gen.KWord || len(tk.Pieces) != 1 || tk.Pieces[0].Text != txt {
			return
		}
		if pn, ok := plainName(st.Toks[i-1]); ok {
			if v, isAlias := aliases[pn]; isAlias && strings.TrimRight(v, " \t") != v {
				found = true
			}
		}
	})
	return found
}

var c17AssignShape = regexp.MustCompile(`^[A-Za-z_][A-Za-z0-9_]*=[A-Za-z0-9_./-]*$`)

func plainName(t *gen.Tok) (string, bool) {
	if t.Kind != gen.KWord || len(t.Pieces) != 1 || t.Pieces[0].Sub != nil {
		return "", false
	}
	s := t.Pieces[0].Text
	if s == "" {
		return "", false
	}
	for i, r := range s {
		if !(r == '_' || r >= 'a' && r <= 'z' || r >= 'A' && r <= 'Z' || r > 127 || i > 0 && r >= '0' && r <= '9') {
			return "", false
		}
	}
	return s, true
}

// renderToks renders a token run canonically (single blanks where needed).
func renderToks(toks []*gen.Tok) string {
	st := &gen.Stream{}
	for _, t := range toks {
		c := *t
		st.Toks = append(st.Toks, &c)
	}
	return gen.Render(st, gen.Canonical{}).Src
}

func foldable(t *gen.Tok) bool {
	// no here-documents and no newlines inside alias values (go.sh finds a
	// here-document delimiter by its column, which is not tracked there)
	return t.HD == nil && t.Kind != gen.KNewline && !t.Glue && t.Kind != gen.KIONum && !strings.Contains(t.FlatText(), "\n")
}

type c17Folder struct {
	rt      *rapid.T
	aliases map[string]string
	next    int
	used    map[string]bool // names that must not be defined (they occur in command position unfolded)
	stats   map[string]int
	// cmdPosCount: how often a plain name occurs in command position
	cmdPosCount map[string]int
	// reservedSpellingsAsWords: the program has words spelled like reserved
	// words (behind an assignment they are command names): no aliases for
	// reserved words then
	reservedSpellingsAsWords bool
	// plainWords: every plain word of the program, in whatever position (such
	// a word may come to stand behind an alias that ends in a blank)
	plainWords map[string]bool
}

func (f *c17Folder) fresh() string {
	for {
		f.next++
		n := fmt.Sprintf("al%d", f.next)
		if _, ok := f.aliases[n]; !ok && !f.used[n] {
			return n
		}
	}
}

// fold replaces token runs of the stream that start at a command-position
// word by alias names, recursively inside nested streams and chained.
func (f *c17Folder) fold(s *gen.Stream, depth int) {
	// nested streams first
	for _, t := range s.Toks {
		for _, p := range t.Pieces {
			if p.Sub != nil && p.Sub.Open == "$(" {
				f.fold(p.Sub, depth)
			}
		}
	}
	for i := 0; i < len(s.Toks); i++ {
		t := s.Toks[i]
		name, ok := plainName(t)
		reservedStart := false
		if t.Kind == gen.KReserved {
			switch t.FlatText() {
			case "!", "if", "while", "until", "{", "for", "case":
				// a value may begin with a reserved word that starts a command:
				// the alias name then stands where that word stood
				name, ok, reservedStart = "", true, true
			}
		}
		if !ok || !t.CmdPos && !reservedStart {
			continue
		}
		if i+1 < len(s.Toks) && s.Toks[i+1].Kind == gen.KOp && s.Toks[i+1].FlatText() == "(" {
			continue // a function name
		}
		if reservedStart && (i+1 >= len(s.Toks) || !foldable(s.Toks[i+1])) {
			continue
		}
		if !reservedStart && rapid.IntRange(0, 11).Draw(f.rt, "empty_alias") == 0 {
			// an alias whose value holds no token at all in front of the command
			// name: the replacement leaves nothing, and the name is still the
			// first word of the command
			an := f.fresh()
			f.aliases[an] = rapid.SampledFrom([]string{"", "", " ", "\t "}).Draw(f.rt, "empty_value")
			nt := &gen.Tok{Kind: gen.KWord, Pieces: []gen.Piece{{Text: an}}, CmdPos: true, Depth: t.Depth}
			s.Toks = append(s.Toks[:i:i], append([]*gen.Tok{nt}, s.Toks[i:]...)...)
			f.stats["alias_with_empty_value"]++
			i++
			continue
		}
		if rapid.IntRange(0, 2).Draw(f.rt, "fold") != 0 {
			continue
		}
		// extent of the run
		j := i + 1
		minLen := 0
		if reservedStart {
			minLen = 1
		}
		for want := rapid.IntRange(minLen, 5).Draw(f.rt, "runlen"); want > 0 && j < len(s.Toks) && foldable(s.Toks[j]); want-- {
			j++
		}
		// the run must not end next to a glued token
		for j > i+1 && (j < len(s.Toks) && s.Toks[j].Glue || s.Toks[j-1].Kind == gen.KIONum) {
			j--
		}
		if j < len(s.Toks) && s.Toks[j].Glue {
			continue
		}
		run := s.Toks[i:j]
		for _, r := range run {
			if !foldable(r) {
				run = nil
				break
			}
		}
		if run == nil {
			continue
		}
		value := strings.TrimRight(renderToks(run), "\n")
		if excluded["alias_value_ends_in_escaped_blank"] && (strings.HasSuffix(value, "\\ ") || strings.HasSuffix(value, "\\\t")) {
			f.stats["excluded:alias_value_ends_in_escaped_blank"]++
			continue
		}
		if strings.HasSuffix(value, "\\ ") || strings.HasSuffix(value, "\\\t") {
			// the value ends in an escaped blank: whether the next word is then
			// examined is read differently (dash: no, bash and go.sh: yes), so
			// such a value is only used where no plain word follows
			if j < len(s.Toks) {
				if _, ok := plainName(s.Toks[j]); ok {
					f.stats["skipped:escaped_blank_before_a_plain_word"]++
					continue
				}
			}
			f.stats["value_ends_in_escaped_blank"]++
		}
		// the alias name: fresh, or the command's own name (self-reference)
		an := f.fresh()
		inRun := 0
		for _, r := range run {
			if nm, ok := plainName(r); ok && r.CmdPos && nm == name {
				inRun++
			}
		}
		// a self-referential name is only safe when the name is in command
		// position nowhere else (other occurrences would be replaced too)
		if _, defined := f.aliases[name]; !reservedStart && !defined && f.cmdPosCount[name] == inRun && rapid.IntRange(0, 3).Draw(f.rt, "selfref") == 0 {
			an = name
			f.stats["self_reference"]++
		}
		blank := false
		// a trailing blank makes the following word eligible: fold it as well
		if j < len(s.Toks) && run[len(run)-1].Kind == gen.KWord && rapid.IntRange(0, 2).Draw(f.rt, "blank") == 0 {
			nx := s.Toks[j]
			if nxName, ok := plainName(nx); ok && nx.HD == nil && !nx.CmdPos && !f.used[nxName] {
				bn := f.fresh()
				f.aliases[bn] = nxName
				f.used[nxName] = true // the value is examined in turn (a chain)
				// the word examined because of the blank may itself lead through a chain
				for k := rapid.IntRange(0, 2).Draw(f.rt, "blankchain"); k > 0; k-- {
					outer := f.fresh()
					f.aliases[outer] = bn
					bn = outer
					f.stats["chained_after_blank"]++
				}
				s.Toks[j] = &gen.Tok{Kind: gen.KWord, Pieces: []gen.Piece{{Text: bn}}}
				blank = true
				f.stats["via_trailing_blank"]++
			}
		}
		if !blank && j < len(s.Toks) && s.Toks[j].Kind == gen.KIONum && rapid.IntRange(0, 1).Draw(f.rt, "blank_before_ionumber") == 0 {
			// a trailing blank in front of the number of a redirection: that is
			// no word, whatever the table says about its digits
			if num := s.Toks[j].FlatText(); !f.used[num] && !f.plainWords[num] {
				if _, defined := f.aliases[num]; !defined {
					f.aliases[num] = "MUST_NOT_APPEAR ;; ("
				}
				blank = true
				f.stats["trailing_blank_before_io_number"]++
			}
		}
		if !blank && !f.reservedSpellingsAsWords && j < len(s.Toks) && s.Toks[j].Kind == gen.KReserved && rapid.IntRange(0, 2).Draw(f.rt, "blank_before_reserved") == 0 {
			// a trailing blank in front of a reserved word (directly behind a
			// compound command, or at the beginning of a command): the word is
			// examined, but a reserved word is never replaced, whatever the
			// table says about its spelling
			if rw := s.Toks[j].FlatText(); !f.used[rw] {
				if _, defined := f.aliases[rw]; !defined {
					f.aliases[rw] = "MUST_NOT_APPEAR ;; ("
				}
				blank = true
				f.stats["trailing_blank_before_reserved_word"]++
			}
		}
		if blank {
			value += rapid.SampledFrom([]string{" ", "  ", "\t"}).Draw(f.rt, "blanks")
		}
		// chain: fold the head of the value again
		chain := 0
		if reservedStart {
			f.stats["value_starts_with_reserved_word"]++
		}
		for !reservedStart && depth+chain < 5 && rapid.IntRange(0, 2).Draw(f.rt, "chain") == 0 {
			inner := f.fresh()
			head := name
			rest := strings.TrimPrefix(value, head)
			// the inner alias carries the command name and maybe the first argument
			f.aliases[inner] = head
			value = inner + rest
			name = inner
			chain++
			f.stats["chained"]++
		}
		f.aliases[an] = value
		nt := &gen.Tok{Kind: gen.KWord, Pieces: []gen.Piece{{Text: an}}, CmdPos: true, Depth: t.Depth}
		s.Toks = append(s.Toks[:i:i], append([]*gen.Tok{nt}, s.Toks[j:]...)...)
		f.stats["folded"]++
		if len(run) > 1 {
			f.stats["multi_token_value"]++
		}
	}
}

func TestC17(t *testing.T) {
	st := newStats("C17")
	defer st.Write()
	shFwd, nsh := shard()
	n := 300000
	if thorough() {
		n = 6000000
	}
	n /= nsh
	reserved := []string{"if", "then", "else", "elif", "fi", "do", "done", "case", "esac", "for", "in", "while", "until", "{", "}", "!"}
	prop := func(rt *rapid.T) {
		o := genOpts()
		o.NoHeredoc = rapid.IntRange(0, 3).Draw(rt, "nohd") != 0
		o.MaxDepth = rapid.IntRange(1, 3).Draw(rt, "maxdepth")
		o.Budget = rapid.IntRange(1, 8).Draw(rt, "budget")
		p := gen.Complete(gen.RapidChooser{T: rt}, o)
		orig := gen.Render(p.Stream, gen.Canonical{}).Src
		s := p.Stream.Clone()
		f := &c17Folder{rt: rt, aliases: map[string]string{}, used: map[string]bool{}, stats: map[string]int{}, cmdPosCount: map[string]int{}, plainWords: map[string]bool{}}
		// names that occur in command position must not be (re)defined by the
		// "must stay untouched" aliases below
		s.Walk(func(_ *gen.Stream, _ int, tk *gen.Tok) {
			if tk.Kind == gen.KWord {
				f.plainWords[tk.FlatText()] = true
			}
			if nm, ok := plainName(tk); ok && tk.CmdPos {
				f.used[nm] = true
				f.cmdPosCount[nm]++
			}
		})
		afterPrefix := p.Feat["reserved_as_word"] > 0 || p.Feat["quoted_reserved_word"] > 0
		f.reservedSpellingsAsWords = afterPrefix
		f.fold(s, 0)
		// aliases for words in other positions, quoted words and reserved words:
		// they must never be replaced
		untouched := 0
		s.Walk(func(st2 *gen.Stream, i int, tk *gen.Tok) {
			if tk.Kind == gen.KWord && len(tk.Pieces) == 1 && tk.Pieces[0].Sub == nil && !tk.CmdPos {
				// a word shaped like an assignment ("x=a"): never a command name,
				// whatever the alias table says
				if txt := tk.Pieces[0].Text; c17AssignShape.MatchString(txt) && rapid.IntRange(0, 2).Draw(rt, "untouched_assign") == 0 {
					// (not behind an alias that ends in a blank: that word is examined)
					afterBlank := false
					if i > 0 {
						if pn, ok := plainName(st2.Toks[i-1]); ok {
							if v, isAlias := f.aliases[pn]; isAlias && strings.TrimRight(v, " \t") != v {
								afterBlank = true
							}
						}
					}
					if _, defined := f.aliases[txt]; !defined && !afterBlank && !c17UsedBehindBlank(s, f.aliases, txt) {
						f.aliases[txt] = "MUST_NOT_APPEAR ;; ("
						untouched++
						f.stats["alias_named_like_an_assignment"]++
					}
					return
				}
			}
			nm, ok := plainName(tk)
			if !ok || tk.CmdPos || f.used[nm] || strings.HasPrefix(nm, "al") {
				return
			}
			// the word after an alias that ends in a blank is examined
			if i > 0 {
				if pn, ok := plainName(st2.Toks[i-1]); ok {
					if v, isAlias := f.aliases[pn]; isAlias && strings.TrimRight(v, " \t") != v {
						return
					}
				}
			}
			if _, defined := f.aliases[nm]; !defined && rapid.IntRange(0, 2).Draw(rt, "untouched") == 0 {
				f.aliases[nm] = "MUST_NOT_APPEAR ;; ("
				untouched++
			}
		})
		if !afterPrefix && rapid.Bool().Draw(rt, "reserved_aliases") {
			for _, r := range reserved {
				if !f.used[r] {
					f.aliases[r] = "MUST_NOT_APPEAR ;; ("
				}
			}
			untouched++
		}
		src := gen.Render(s, gen.Canonical{}).Src
		c := c17Case{Src: src, Aliases: f.aliases, Want: p.Skel, Orig: orig}
		jr.begin("C17", "alias", c)
		err := checkC17(c)
		jr.end()
		if err != nil {
			fail(rt, "C17", "alias", c, "%v", err)
		}
		subst := f.stats["folded"] + f.stats["via_trailing_blank"] + f.stats["chained"]
		var keys []string
		for k, v := range f.aliases {
			keys = append(keys, k+"="+v)
		}
		sort.Strings(keys)
		st.Eval(subst >= 2 && (f.stats["via_trailing_blank"] > 0 || f.stats["chained"] > 0), src, strings.Join(keys, "\x00"))
		for k, v := range f.stats {
			if strings.HasPrefix(k, "excluded:") {
				for i := 0; i < v; i++ {
					st.Exclude(strings.TrimPrefix(k, "excluded:"))
				}
				continue
			}
			st.ClassN(k, int64(v))
		}
		st.ClassN("aliases_that_must_stay_untouched", int64(untouched))
		if subst > 0 {
			st.Sample(map[string]any{"src": src, "aliases": f.aliases, "unfolded": orig})
		}
		// termination for an arbitrary table over the same program
		if rapid.IntRange(0, 3).Draw(rt, "random_table") == 0 {
			names := []string{"a", "b", "c", "cmd", "echo", "ls", "x1", "foo", "true", "go"}
			al := map[string]string{}
			for i := rapid.IntRange(1, 5).Draw(rt, "naliases"); i > 0; i-- {
				var v strings.Builder
				for j := rapid.IntRange(0, 4).Draw(rt, "nvtok"); j > 0; j-- {
					v.WriteString(rapid.SampledFrom(append(append([]string{}, names...), "|", ";", "&&", "if", "then", "fi", "(", ")", "{", "}", "x=1", ">f", "$(a)", "`b`", "$((1))", "'q'")).Draw(rt, "vtok"))
					v.WriteString(rapid.SampledFrom([]string{" ", " ", ""}).Draw(rt, "vsep"))
				}
				al[rapid.SampledFrom(names).Draw(rt, "aname")] = v.String()
			}
			c2 := c17Case{Src: orig, Aliases: al}
			jr.begin("C17", "alias", c2)
			err := checkC17(c2)
			jr.end()
			if err != nil {
				fail(rt, "C17", "alias", c2, "%v", err)
			}
			st.Eval(false, "random table")
			st.Class("random_tables_termination_only")
		}
	}
	runRapid(t, n, prop)

	// the other direction: tables first
	fwd := func(rt *rapid.T) {
		// (alias names need not be identifiers)
		names := []string{"ll", "la", "l", "both", "src", "ls", "e", "ll-a", "..", "2x", "a+b", "@x", "l.", "é", "r"}
		table := map[string]c17Frag{}
		for i := rapid.IntRange(1, 5).Draw(rt, "naliases"); i > 0; i-- {
			nm := rapid.SampledFrom(names).Draw(rt, "alias")
			table[nm] = c17GenFrag(rt, names, true)
		}
		line := c17GenFrag(rt, names, false)
		if rapid.IntRange(0, 4).Draw(rt, "line_comment") == 0 && line.Cmds[len(line.Cmds)-1].Wrap == "" {
			line.Comment = " # c"
		}
		src := line.text() + "\n"
		unfolded, amb := c17Unfold(line, table, map[string]bool{}, 0, true)
		unfolded += "\n"
		if rapid.IntRange(0, 3).Draw(rt, "two_lines") == 0 {
			l2 := c17GenFrag(rt, names, false)
			u2, amb2 := c17Unfold(l2, table, map[string]bool{}, 0, true)
			amb = amb || amb2
			src = "{ " + line.text() + "\n" + l2.text() + "\n}\n"
			unfolded = "{ " + strings.TrimSuffix(unfolded, "\n") + "\n" + u2 + "\n}\n"
			st.Class("forward_two_lines")
		}
		if amb {
			st.Class("forward_skipped_blank_ended_alias_ends_a_value_that_does_not")
			return
		}
		c := c17Fwd{Src: src, Aliases: map[string]string{}, Unfolded: unfolded}
		uses := 0
		for k, v := range table {
			c.Aliases[k] = v.text()
			if v.Comment != "" {
				st.Class("forward_value_with_comment")
			}
			uses += strings.Count(" "+unfolded, k)
		}
		jr.begin("C17", "forward", c)
		err := checkC17Fwd(c)
		jr.end()
		if err != nil {
			fail(rt, "C17", "forward", c, "%v", err)
		}
		st.Eval(src != unfolded && len(table) >= 2, src, fmt.Sprint(c.Aliases))
		st.Class("forward_cases")
		if src != unfolded {
			st.Class("forward_cases_with_a_replacement")
			st.Sample(map[string]any{"src": src, "aliases": c.Aliases, "replaced": unfolded})
		}
	}
	runRapid(t, n/3, fwd)

	// chains of aliases at the third word of case and for (behind a head that
	// ends in a blank, so that the word is examined under every reading)
	{
		k := 0
		for _, tpl := range []struct{ head, third, rest, text string }{
			{"case w ", "in", " x) a;; esac", "case w in x) a;; esac"},
			{"case w ", "in x) a;; esac", "", "case w in x) a;; esac"},
			{"for i ", "in", " a b; do c; done", "for i in a b; do c; done"},
			{"for i ", "do", " c; done", "for i do c; done"},
			{"for i ", "in a; do c; done", "", "for i in a; do c; done"},
			{"case $v ", "in", "\n(x|y) a;;\nesac", "case $v in\n(x|y) a;;\nesac"},
		} {
			for depth := 1; depth <= 3; depth++ {
				for blanks := 0; blanks < 1<<depth; blanks++ {
					k++
					if k%nsh != shFwd {
						continue
					}
					al := map[string]string{"H": tpl.head}
					// t1 -> t2 -> ... -> the third word; the rest of the command is the
					// tail of the outermost value (or of the source)
					for d := 1; d <= depth; d++ {
						v := fmt.Sprintf("t%d", d+1)
						if d == depth {
							v = tpl.third
						}
						if blanks>>(d-1)&1 == 1 && d != depth {
							v += " "
						}
						al[fmt.Sprintf("t%d", d)] = v
					}
					src := "H t1" + tpl.rest + "\n"
					if k%2 == 0 && tpl.rest != "" {
						// the rest of the command inside the outermost value
						al["t1"] = strings.TrimRight(al["t1"], " ") + tpl.rest
						src = "H t1\n"
					}
					c := c17Fwd{Src: src, Aliases: al, Unfolded: tpl.text + "\n"}
					if err := checkC17Fwd(c); err != nil {
						fail(t, "C17", "forward", c, "%v", err)
					}
					st.EvalN(1, 1)
					st.Class("alias_chain_at_the_third_word_of_case_or_for")
				}
			}
		}
		st.Note("alias chains of depth 1-3 (with and without trailing blanks on the way) that end in the third word of a case or for command (in, do, or in together with the rest of the command), behind a head alias that ends in a blank")
	}

	// a reserved word directly behind a compound command that came out of an
	// alias ending in a blank: the word is examined, but reserved words are
	// never replaced, although the table has an alias for every one of them
	{
		compounds := []string{"{ a; }", "( a )", "if a; then b; fi", "while a; do b; done", "until a; do b; done",
			"for i in x; do b; done", "case x in a) b;; esac", "{ a; } >f", "f() { a; }"}
		frames := []struct{ pre, post string }{
			{"if ", " then x; fi"}, {"while ", " do x; done"}, {"until ", " do x; done"},
			{"if a; then ", " fi"}, {"if a; then ", " else b; fi"}, {"if a; then ", " elif b; then c; fi"},
			{"if a; then b; else ", " fi"}, {"while a; do ", " done"}, {"for i in x; do ", " done"},
			{"{ ", " }"}, {"case x in a) ", " esac"}, {"if a; then b; elif ", " then c; fi"},
		}
		reservedAliases := map[string]string{}
		for _, r := range reserved {
			reservedAliases[r] = "MUST_NOT_APPEAR ;; ("
		}
		k := 0
		for _, c := range compounds {
			for _, fr := range frames {
				for bi, bl := range []string{" ", "\t", "  ", ""} {
					k++
					if k%nsh != shFwd {
						continue
					}
					unfolded := fr.pre + c + fr.post + "\n"
					if _, _, err := parser.ParseCommands(nil, "c17", unfolded); err != nil {
						continue // e.g. a reserved word is not recognised behind a redirection or a function body
					}
					al := map[string]string{"grp": c + bl}
					for r, v := range reservedAliases {
						al[r] = v
					}
					src := fr.pre + "grp" + fr.post + "\n"
					if bi%2 == 1 {
						// the same through an alias that only names it (and ends in a blank itself)
						al["outer"] = "grp" + bl
						src = fr.pre + "outer" + fr.post + "\n"
					}
					// (the words of the frame are reserved words in reserved positions,
					// with and without the table)
					fc := c17Fwd{Src: src, Aliases: al, Unfolded: unfolded}
					if err := checkC17Fwd(fc); err != nil {
						fail(t, "C17", "forward", fc, "%v", err)
					}
					st.EvalN(1, 1)
					st.Class("reserved_word_behind_a_compound_command_from_a_blank_ended_alias")
				}
			}
		}
		st.Note("%d compound commands as alias values (ending in a blank, a tab, two blanks or nothing; directly and through an alias that names them) x %d frames in which a reserved word follows directly (then do fi else elif done } esac), with an alias defined for every reserved word", len(compounds), len(frames))
	}

	// an alias whose value begins with a reserved word, as the command name
	// behind an assignment or a redirection: there the reserved word is an
	// ordinary word, with or without the alias (and at the beginning of a
	// command it is the reserved word, with or without it)
	{
		frames := []struct{ pre, word, post string }{
			{"if a; then ", "fi", ""}, {"while ", "do", " c; done"}, {"{ ", "}", ""}, {"if ", "then", " c; fi"},
			{"for i in x; do ", "done", ""}, {"case x in a) ", "esac", ""}, {"if a; then b; ", "else", " c; fi"},
			{"if a; then b; ", "elif", " c; then d; fi"}, {"", "if", " a; then b; fi"}, {"", "!", " a"}, {"", "{", " a; }"},
			{"until ", "do", " c; done"}, {"", "while", " a; do b; done"}, {"", "for", " i in x; do b; done"}, {"", "case", " x in a) b;; esac"},
		}
		k := 0
		for _, fr := range frames {
			for _, prefix := range []string{"b=1 ", ">f ", "b=1 <f c=2 ", "2>&1 ", "c; ", "c && ", ""} {
				for vi, value := range []string{"%s", "%s ", "%s\t", "inner"} {
					k++
					if k%nsh != shFwd {
						continue
					}
					if prefix == "" && fr.pre == "" {
						continue
					}
					al := map[string]string{"AL": strings.Replace(value, "%s", fr.word, 1)}
					if vi == 3 {
						al["inner"] = fr.word
					}
					fc := c17Fwd{Src: fr.pre + prefix + "AL" + fr.post + "\n", Aliases: al, Unfolded: fr.pre + prefix + fr.word + fr.post + "\n"}
					if err := checkC17Fwd(fc); err != nil {
						fail(t, "C17", "forward", fc, "%v", err)
					}
					st.EvalN(1, 1)
					st.Class("alias_value_beginning_with_a_reserved_word_behind_a_prefix")
				}
			}
		}
		st.Note("%d frames x 7 command beginnings (assignments, redirections, both, a separator, nothing) x 4 values: an alias whose value is a reserved word, as command name behind a prefix (an ordinary word there) and at the beginning of a command (the reserved word)", len(frames))
	}

	// an alias that only names another alias
	ind := func(rt *rapid.T) {
		names := []string{"ll", "la", "l", "both", "ls", "e", "ll-a", ".."}
		table := map[string]c17Frag{}
		for i := rapid.IntRange(1, 4).Draw(rt, "naliases"); i > 0; i-- {
			nm := rapid.SampledFrom(names).Draw(rt, "alias")
			f := c17GenFrag(rt, names, true)
			f.Comment = ""
			if rapid.IntRange(0, 2).Draw(rt, "newline_in_value") == 0 && len(f.Cmds) > 1 {
				// a value that spans lines
				f.Cmds[rapid.IntRange(0, len(f.Cmds)-2).Draw(rt, "nlat")].Sep = rapid.SampledFrom([]string{"\n", " &&\n", ";\n", " |\n"}).Draw(rt, "nlsep")
			}
			table[nm] = f
		}
		line := c17GenFrag(rt, names, false)
		c := c17Ind{Src: line.text() + "\n", Aliases: map[string]string{}}
		for k, v := range table {
			c.Aliases[k] = v.text()
		}
		// the same line through z aliases
		z := 0
		for ci := range line.Cmds {
			for wi := range line.Cmds[ci].Words {
				w := &line.Cmds[ci].Words[wi]
				if v, ok := table[w.Name]; ok && w.Name != "" && wi == 0 && rapid.Bool().Draw(rt, "indirect") {
					z++
					zn := fmt.Sprintf("z%d", z)
					c.Aliases[zn] = w.Name + v.Blank
					w.Text, w.Name = zn, zn
				}
			}
		}
		if z == 0 {
			return
		}
		// values with a here-document and its body, followed by more commands
		if rapid.IntRange(0, 2).Draw(rt, "heredoc_value") == 0 {
			hn := rapid.SampledFrom([]string{"h", "hh"}).Draw(rt, "hname")
			tail := c17GenFrag(rt, names, false)
			tail.Comment = ""
			c.Aliases[hn] = rapid.SampledFrom([]string{"cat <<E\nbody\nE\n", "cat <<-E | x\n\tb $v\n\tE\n", "a <<A <<'B'\n1\nA\n2\nB\n"}).Draw(rt, "hval") + tail.text() + rapid.SampledFrom([]string{"", " ", "\n"}).Draw(rt, "htail")
			bc := c17Brace{Src: hn + rapid.SampledFrom([]string{"", "; e2", " | e3"}).Draw(rt, "hafter"), Aliases: c.Aliases}
			jr.begin("C17", "brace", bc)
			err := checkC17Brace(bc)
			jr.end()
			if err != nil && !strings.HasPrefix(err.Error(), "harness:") {
				fail(rt, "C17", "brace", bc, "%v", err)
			}
			st.Class("value_with_heredoc_body_at_top_level_and_in_braces")
		}
		c.Indirect = line.text() + "\n"
		jr.begin("C17", "indirection", c)
		err := checkC17Ind(c)
		jr.end()
		if err != nil {
			fail(rt, "C17", "indirection", c, "%v", err)
		}
		st.Eval(true, c.Src, c.Indirect, fmt.Sprint(c.Aliases))
		st.Class("indirection_cases")
		st.Sample(map[string]any{"direct": c.Src, "indirect": c.Indirect, "aliases": c.Aliases})
	}
	runRapid(t, n/6, ind)
	st.Note("indirection: the same kind of tables (values may also span lines here) and lines; each alias used as a command name is also reached through a fresh alias whose value is just its name (plus the trailing blanks of the value): both sources, parsed with the aliases, must give the same program or both an error")
	st.Note("tables first: 1-5 aliases over 7 names whose values are 1-3 simple commands (optionally behind an assignment word, inside ! { } ( )) joined by ; | && ||, with alias names in command and in argument position, quoted spellings of them, trailing blanks or a comment at the end of the value; the source is such a line (or two lines in a brace group); the replacement is carried out on the structure (a name is not replaced inside its own expansion, the word behind a value that ends in a blank is examined) and the resulting text, parsed without aliases, is the oracle")
	st.Note("generated program P; random command-position token runs are folded into fresh alias names (values of 1-6 tokens incl. operators, reserved words, assignments, redirections, ending inside compound commands), optionally named like their own first word (self-reference), optionally with a trailing blank whose following word is folded too, optionally chained up to depth 5; alias definitions for words in argument / pattern / quoted positions and for reserved words must never apply; oracle: skeleton(parse(folded, aliases)) == skeleton(P). Plus random alias tables over the same programs for termination only.")
}

// ---- the other direction: alias tables first ---------------------------------
//
// The folding generator above starts from a program and never makes a value
// that uses one alias twice, holds a comment, or is followed by an argument
// that names an alias. Here tables and sources are built from a small
// structured language in which every word is known to stand in command
// position or not, the textual replacement the property describes is carried
// out on that structure, and parsing the result without aliases is the oracle.

type c17Fwd struct {
	Src      string            `json:"src"`
	Aliases  map[string]string `json:"aliases"`
	Unfolded string            `json:"unfolded"` // the text after the replacement
}

func checkC17Fwd(c c17Fwd) error {
	want, _, werr := parser.ParseCommands(nil, "c17", c.Unfolded)
	env := interp.NewExecEnv("sh")
	for k, v := range c.Aliases {
		env.Aliases[k] = v
	}
	type res struct {
		cmds []ast.Command
		err  error
	}
	done := make(chan res, 1)
	go func() {
		cmds, _, err := parser.ParseCommands(env, "c17", c.Src)
		done <- res{cmds, err}
	}()
	var r res
	select {
	case r = <-done:
	case <-time.After(30 * time.Second):
		return fmt.Errorf("alias substitution does not terminate within 30s\nsrc: %q\naliases: %q", c.Src, c.Aliases)
	}
	if werr != nil {
		if r.err == nil {
			return fmt.Errorf("the text after the replacement is rejected (%v), the source with aliases is accepted\nsrc: %q\naliases: %q\nreplaced: %q", werr, c.Src, c.Aliases, c.Unfolded)
		}
		return nil
	}
	if r.err != nil {
		return fmt.Errorf("the source with aliases is rejected: %v\nsrc: %q\naliases: %q\nreplaced: %q", r.err, c.Src, c.Aliases, c.Unfolded)
	}
	if g, w := oracle.Commands(r.cmds, oracle.Exact), oracle.Commands(want, oracle.Exact); !reflect.DeepEqual(g, w) {
		return fmt.Errorf("parsing with aliases differs from the textual replacement\nsrc: %q\naliases: %q\nreplaced: %q\ngot:  %s\nwant: %s", c.Src, c.Aliases, c.Unfolded, strings.Join(g, " "), strings.Join(w, " "))
	}
	return nil
}

func init() { reg("C17", "forward", checkC17Fwd) }

// c17Ind: an alias whose value is just the name of another alias behaves
// like that alias. Both sources are parsed with the same kind of alias text
// behind them, so values may also span lines here.
type c17Ind struct {
	Src      string            `json:"src"`      // uses the aliases directly
	Indirect string            `json:"indirect"` // uses them through the aliases z1, z2, ...
	Aliases  map[string]string `json:"aliases"`  // includes the z aliases
}

func checkC17Ind(c c17Ind) error {
	parse := func(src string) ([]string, error) {
		env := interp.NewExecEnv("sh")
		for k, v := range c.Aliases {
			env.Aliases[k] = v
		}
		type res struct {
			cmds []ast.Command
			err  error
		}
		done := make(chan res, 1)
		go func() {
			cmds, _, err := parser.ParseCommands(env, "c17", src)
			done <- res{cmds, err}
		}()
		select {
		case r := <-done:
			if r.err != nil {
				return nil, r.err
			}
			return oracle.Commands(r.cmds, oracle.Exact), nil
		case <-time.After(30 * time.Second):
			return nil, fmt.Errorf("alias substitution does not terminate within 30s")
		}
	}
	want, werr := parse(c.Src)
	got, gerr := parse(c.Indirect)
	if (werr != nil) != (gerr != nil) {
		return fmt.Errorf("through an alias that only names the alias: error %v; directly: error %v\ndirect: %q\nindirect: %q\naliases: %q", gerr, werr, c.Src, c.Indirect, c.Aliases)
	}
	if werr == nil && !reflect.DeepEqual(got, want) {
		return fmt.Errorf("an alias that only names another alias gives a different program\ndirect: %q\nindirect: %q\naliases: %q\ngot:  %s\nwant: %s", c.Src, c.Indirect, c.Aliases, strings.Join(got, " "), strings.Join(want, " "))
	}
	return nil
}

func init() { reg("C17", "indirection", checkC17Ind) }

// c17Brace: a line that uses aliases whose values span lines (here-documents
// with their bodies among them) gives the same commands at top level as
// inside a brace group: alias text that is still unread goes on after a
// newline in both places.
type c17Brace struct {
	Src     string            `json:"src"` // one line, without its newline
	Aliases map[string]string `json:"aliases"`
}

func checkC17Brace(c c17Brace) error {
	parse := func(src string) ([]ast.Command, error) {
		env := interp.NewExecEnv("sh")
		for k, v := range c.Aliases {
			env.Aliases[k] = v
		}
		type res struct {
			cmds []ast.Command
			err  error
		}
		done := make(chan res, 1)
		go func() {
			cmds, _, err := parser.ParseCommands(env, "c17", src)
			done <- res{cmds, err}
		}()
		select {
		case r := <-done:
			return r.cmds, r.err
		case <-time.After(30 * time.Second):
			return nil, fmt.Errorf("alias substitution does not terminate within 30s")
		}
	}
	top, terr := parse(c.Src + "\n")
	in, ierr := parse("{ " + c.Src + "\n}\n")
	if terr != nil || ierr != nil {
		// (text that is not a list of complete commands can close the group
		// early or fail in one place only: nothing to compare)
		return nil
	}
	var inner []ast.Command
	if len(in) == 1 {
		if cm, ok := in[0].(*ast.Cmd); ok {
			if g, ok := cm.Expr.(*ast.Group); ok {
				inner = g.List
			}
		}
	}
	if inner == nil {
		return fmt.Errorf("harness: the brace group did not come back as one\nsrc: %q", c.Src)
	}
	if g, w := strings.Join(oracle.Commands(top, oracle.Sep), " ;; "), strings.Join(oracle.Commands(inner, oracle.Sep), " ;; "); g != w {
		return fmt.Errorf("the commands at top level differ from those inside a brace group\nsrc: %q\naliases: %q\ntop:    %s\ninside: %s", c.Src, c.Aliases, g, w)
	}
	return nil
}

func init() { reg("C17", "brace", checkC17Brace) }

// c17W is a word: Text as written; Name is the alias name it may stand for
// ("" for quoted spellings, options, assignments).
type c17W struct{ Text, Name string }

// c17Cmd is a simple command, optionally wrapped.
type c17Cmd struct {
	Wrap  string // "", "! ", "{ %s; }", "( %s )"
	Words []c17W // words[0] (behind assignment words) is in command position
	Sep   string // separator that follows: " ; ", ";", " | ", " && ", " || ", ""
}

type c17Frag struct {
	Cmds    []c17Cmd
	Blank   string // trailing blanks of an alias value
	Comment string // " #..." at the end of a value or line
}

func (f c17Frag) text() string {
	var b strings.Builder
	for _, c := range f.Cmds {
		var ws []string
		for _, w := range c.Words {
			ws = append(ws, w.Text)
		}
		t := strings.Join(ws, " ")
		if c.Wrap != "" {
			if strings.Contains(c.Wrap, "%s") {
				t = fmt.Sprintf(c.Wrap, t)
			} else {
				t = c.Wrap + t
			}
		}
		b.WriteString(t + c.Sep)
	}
	return b.String() + f.Comment + f.Blank
}

// c17Unfold carries out the replacement. ambiguous: an alias whose value
// ends in a blank is the last word of a value that does not (whether the
// word after the outer alias is then examined is read differently).
//
// cmdPos: the fragment begins in command position. A value that replaces a
// word examined because of a blank begins in argument position: its first
// word is examined (a chain), but a leading "!", "{" or "(" is then an
// ordinary word and what follows it an argument.
func c17Unfold(f c17Frag, table map[string]c17Frag, active map[string]bool, depth int, cmdPos bool) (text string, ambiguous bool) {
	text, ambiguous, _ = c17UnfoldP(f, table, active, depth, cmdPos, false)
	return
}

// c17UnfoldP also reports whether the text ends in a command of which only
// assignment words and redirections have been seen: its name is still to come.
//
// noReserved: the fragment begins behind an assignment word or a redirection
// of the same command: its first word is the command name (and examined), but
// a leading "!", "{" or "(" is an ordinary word there.
func c17UnfoldP(f c17Frag, table map[string]c17Frag, active map[string]bool, depth int, cmdPos, noReserved bool) (text string, ambiguous, pending bool) {
	var b strings.Builder
	for ci, c := range f.Cmds {
		var ws []string
		examine := true
		if ci == 0 && (!cmdPos || noReserved) && c.Wrap != "" {
			examine = false
		}
		prefix := 0 // assignment words and redirections in front of the command name
		for wi, w := range c.Words {
			if c17PrefixWord(w) && examine && wi == prefix {
				// an assignment word or a redirection: the next word is still the command name
				ws = append(ws, w.Text)
				prefix++
				continue
			}
			v, isAlias := table[w.Name]
			if examine && w.Name != "" && isAlias && !active[w.Name] && depth < 40 {
				active[w.Name] = true
				// is this word the command name of a command?
				first := wi == prefix
				sub, amb, subPending := c17UnfoldP(v, table, active, depth+1, first && (ci > 0 || cmdPos), prefix > 0 || ci == 0 && noReserved)
				delete(active, w.Name)
				ambiguous = ambiguous || amb
				ws = append(ws, strings.TrimRight(sub, " \t"))
				if first && (ci > 0 || cmdPos) && subPending {
					// the value is nothing but redirections: the command name is still to come
					prefix = wi + 1
					continue
				}
				examine = v.Blank != ""
				if examine && wi < len(c.Words)-1 && strings.HasSuffix(strings.TrimRight(sub, " \t"), ")") {
					// whether the word behind ") " is examined is read differently (dash and bash: yes, go.sh: no)
					ambiguous = true
				}
				if examine && ci == len(f.Cmds)-1 && wi == len(c.Words)-1 && f.Blank == "" && depth > 0 {
					ambiguous = true
				}
				continue
			}
			ws = append(ws, w.Text)
			examine = false
		}
		t := strings.Join(ws, " ")
		if c.Wrap != "" {
			if strings.Contains(c.Wrap, "%s") {
				t = fmt.Sprintf(c.Wrap, t)
			} else {
				t = c.Wrap + t
			}
		}
		b.WriteString(t + c.Sep)
		pending = ci == len(f.Cmds)-1 && prefix == len(c.Words) && (c.Wrap == "" || c.Wrap == "! " && examine) && c.Sep == "" && f.Comment == "" && (ci > 0 || cmdPos)
	}
	return b.String() + f.Comment + f.Blank, ambiguous, pending
}

var c17RedirWord = regexp.MustCompile(`^[0-9]*[<>]`)

// c17PrefixWord: an assignment word or a redirection written as one word.
func c17PrefixWord(w c17W) bool {
	return w.Name == "" && (c17RedirWord.MatchString(w.Text) || c17AssignShape.MatchString(w.Text))
}

// c17PrefixText: the text is nothing but assignment words and redirections.
func c17PrefixText(s string) bool {
	fs := strings.Fields(s)
	for _, f := range fs {
		if !c17RedirWord.MatchString(f) && !c17AssignShape.MatchString(f) {
			return false
		}
	}
	return len(fs) > 0
}

func c17GenFrag(rt *rapid.T, names []string, value bool) c17Frag {
	var f c17Frag
	if value && rapid.IntRange(0, 7).Draw(rt, "redir_value") == 0 {
		// a value that is a redirection: behind a blank-ended alias it is
		// examined like any other word, also behind a compound command
		f.Cmds = []c17Cmd{{Words: []c17W{{Text: rapid.SampledFrom([]string{">out", "2>&1", "<in", ">>log"}).Draw(rt, "redir_text")}}}}
		if rapid.Bool().Draw(rt, "redir_blank") {
			f.Blank = " "
		}
		return f
	}
	n := rapid.SampledFrom([]int{1, 1, 2, 2, 3}).Draw(rt, "ncmds")
	for i := 0; i < n; i++ {
		var c c17Cmd
		c.Wrap = rapid.SampledFrom([]string{"", "", "", "", "! ", "{ %s; }", "( %s )"}).Draw(rt, "wrap")
		assign := rapid.IntRange(0, 5).Draw(rt, "assign") == 0
		if assign {
			c.Words = append(c.Words, c17W{Text: "v=1"})
		}
		nw := rapid.SampledFrom([]int{1, 1, 2, 2, 3}).Draw(rt, "nwords")
		for j := 0; j < nw; j++ {
			if j == 0 && assign {
				// behind an assignment word reserved words are ordinary words, so
				// that the command name there is never an alias (whose value might
				// begin with one)
				pl := rapid.SampledFrom([]string{"echo", "cd", "true", "cat"}).Draw(rt, "cmdname_plain")
				c.Words = append(c.Words, c17W{Text: pl})
				continue
			}
			switch rapid.IntRange(0, 9).Draw(rt, "word") {
			case 0, 1, 2, 3, 4:
				nm := rapid.SampledFrom(names).Draw(rt, "name")
				c.Words = append(c.Words, c17W{Text: nm, Name: nm})
			case 5:
				nm := rapid.SampledFrom(names).Draw(rt, "qname")
				q := rapid.SampledFrom([]string{`\%s`, `'%s'`, `"%s"`, `%s''`}).Draw(rt, "quoting")
				c.Words = append(c.Words, c17W{Text: fmt.Sprintf(q, nm)})
			case 6:
				c.Words = append(c.Words, c17W{Text: rapid.SampledFrom([]string{"-l", "-a", "x", "./src", "~/src", "$v", "*.go"}).Draw(rt, "plain")})
			default:
				pl := rapid.SampledFrom([]string{"ls", "echo", "cd", "true", "cat"}).Draw(rt, "cmdname")
				c.Words = append(c.Words, c17W{Text: pl, Name: pl})
			}
		}
		if i < n-1 {
			c.Sep = rapid.SampledFrom([]string{" ; ", ";", " | ", " && ", " || ", "|"}).Draw(rt, "sep")
		}
		f.Cmds = append(f.Cmds, c)
	}
	if value {
		switch rapid.IntRange(0, 7).Draw(rt, "tail") {
		case 0, 1, 2:
			f.Blank = rapid.SampledFrom([]string{" ", "  ", "\t"}).Draw(rt, "blank")
		case 3:
			if f.Cmds[len(f.Cmds)-1].Wrap == "" {
				f.Comment = rapid.SampledFrom([]string{" #note", " # dirs only", " #"}).Draw(rt, "comment")
			}
		}
	}
	return f
}
