package props

import (
	"fmt"
	"strings"
	"testing"
	"unicode/utf8"

	"github.com/hattya/go.sh/interp"
	"github.com/hattya/go.sh/parser"
	"pgregory.net/rapid"

	"verif/gen"
	"verif/ref"
)

// C03 — ill-formed programs are rejected with a located syntax error.

type c03Case struct {
	Src     string `json:"src"`
	Verdict string `json:"verdict"` // the recogniser's classification: sentence / incomplete / invalid
	// Marks are the byte offsets at which an error may be located: the start
	// of every token and of every quote / expansion inside a word.
	Marks []int  `json:"marks"`
	How   string `json:"how"` // how the input was made
	// Aliases: the program is spread over alias values (the source names the
	// first alias); the text that comes from an alias has no position of its
	// own, so the position of the error is not looked at.
	Aliases map[string]string `json:"aliases,omitempty"`
}

var redirOpSet = map[string]bool{"<": true, ">": true, ">|": true, ">>": true, "<&": true, ">&": true, "<>": true}
var ctlOpSet = map[string]bool{"&&": true, "||": true, "|": true, "(": true, ")": true, ";;": true, "&": true, ";": true}

func rtokOfText(s string) ref.RTok {
	switch {
	case s == "\n":
		return ref.RTok{Kind: ref.RNewline, Text: s}
	case ctlOpSet[s]:
		return ref.RTok{Kind: ref.ROp, Text: s}
	case redirOpSet[s]:
		return ref.RTok{Kind: ref.RRedir, Text: s}
	case s == "<<" || s == "<<-":
		return ref.RTok{Kind: ref.RHeredoc, Text: s}
	}
	return ref.RTok{Kind: ref.RWord, Text: s}
}

// posToOffset converts line:col (columns count characters) to a byte offset.
func posToOffset(src string, line, col int) int {
	l, c := 1, 1
	for i, r := range src {
		if l == line && c == col {
			return i
		}
		if r == '\n' {
			l++
			c = 1
		} else {
			c++
		}
	}
	if l == line && c == col {
		return len(src)
	}
	return -1
}

func checkC03(c c03Case) error {
	cs := &countingScanner{s: c.Src}
	var env *interp.ExecEnv
	if c.Aliases != nil {
		env = interp.NewExecEnv("sh")
		for k, v := range c.Aliases {
			env.Aliases[k] = v
		}
	}
	cmds, _, err := parser.ParseCommands(env, "c03-name", cs)
	if c.Verdict == "sentence" {
		if err != nil {
			return fmt.Errorf("%s: a well-formed command is rejected: %v\nsrc: %q aliases: %q", c.How, err, c.Src, c.Aliases)
		}
		return nil
	}
	if err == nil {
		return fmt.Errorf("%s: an ill-formed program (%s) is accepted with %d command(s)\nsrc: %q aliases: %q", c.How, c.Verdict, len(cmds), c.Src, c.Aliases)
	}
	pe, ok := err.(parser.Error)
	if !ok {
		return fmt.Errorf("%s: the error is a %T (%v), want a parser.Error\nsrc: %q", c.How, err, err, c.Src)
	}
	if pe.Name != "c03-name" {
		return fmt.Errorf("%s: the error names %q, want the caller's name\nsrc: %q", c.How, pe.Name, c.Src)
	}
	if c.Aliases != nil {
		// text that comes from an alias has no position of its own
		return nil
	}
	off := posToOffset(c.Src, pe.Pos.Line(), pe.Pos.Col())
	if off < 0 {
		return fmt.Errorf("%s: error position %d:%d is outside the source (%v)\nsrc: %q", c.How, pe.Pos.Line(), pe.Pos.Col(), err, c.Src)
	}
	if off > cs.off+utf8.UTFMax && off != len(c.Src) {
		return fmt.Errorf("%s: error position %d:%d (offset %d) lies beyond the text consumed so far (offset %d) (%v)\nsrc: %q", c.How, pe.Pos.Line(), pe.Pos.Col(), off, cs.off, err, c.Src)
	}
	if len(c.Marks) > 0 {
		ok := false
		for _, m := range c.Marks {
			if m == off {
				ok = true
				break
			}
		}
		if !ok {
			return fmt.Errorf("%s: error position %d:%d (offset %d, %v) is not the start of a token or construct (starts: %v)\nsrc: %q", c.How, pe.Pos.Line(), pe.Pos.Col(), off, err, c.Marks, c.Src)
		}
	}
	return nil
}

func init() { reg("C03", "reject", checkC03) }

// marksOf returns the offsets at which an error may be located.
func marksOf(src string, starts []int) []int {
	seen := map[int]bool{}
	var out []int
	add := func(o int) {
		if !seen[o] {
			seen[o] = true
			out = append(out, o)
		}
	}
	for _, s := range starts {
		add(s)
	}
	for i := 0; i < len(src); i++ {
		switch src[i] {
		case '\'', '"', '\\', '$', '`':
			add(i)
		case '(':
			if strings.HasPrefix(src[i:], "((") {
				add(i)
			}
		}
	}
	return out
}

// c03Unit is a mutation unit: one token, or a group that must stay together.
type c03Unit struct {
	toks []*gen.Tok
	r    ref.RTok
}

func unitsOf(s *gen.Stream) []c03Unit {
	var us []c03Unit
	for i := 0; i < len(s.Toks); i++ {
		t := s.Toks[i]
		txt := t.FlatText()
		switch {
		case t.Kind == gen.KNewline:
			us = append(us, c03Unit{[]*gen.Tok{t}, ref.RTok{Kind: ref.RNewline, Text: "\n"}})
		case t.Kind == gen.KIONum && i+1 < len(s.Toks):
			op := s.Toks[i+1]
			us = append(us, c03Unit{[]*gen.Tok{t, op}, ref.RTok{Kind: ref.RRedir, Text: txt + op.FlatText()}})
			i++
		case t.Kind == gen.KOp && txt == "((" && i+2 < len(s.Toks):
			us = append(us, c03Unit{[]*gen.Tok{t, s.Toks[i+1], s.Toks[i+2]}, ref.RTok{Kind: ref.RArith, Text: "((" + s.Toks[i+1].FlatText() + "))"}})
			i += 2
		case t.Kind == gen.KOp && redirOpSet[txt]:
			us = append(us, c03Unit{[]*gen.Tok{t}, ref.RTok{Kind: ref.RRedir, Text: txt}})
		case t.Kind == gen.KOp:
			us = append(us, c03Unit{[]*gen.Tok{t}, ref.RTok{Kind: ref.ROp, Text: txt}})
		default:
			us = append(us, c03Unit{[]*gen.Tok{t}, ref.RTok{Kind: ref.RWord, Text: txt}})
		}
	}
	return us
}

func renderUnits(us []c03Unit) (string, []int, []ref.RTok) {
	st := &gen.Stream{}
	var rs []ref.RTok
	for _, u := range us {
		for _, t := range u.toks {
			c := *t
			c.HD = nil
			st.Toks = append(st.Toks, &c)
		}
		rs = append(rs, u.r)
	}
	r := gen.Render(st, gen.Canonical{})
	return r.Src, r.Starts, rs
}

func alphabetUnit(s string) c03Unit {
	r := rtokOfText(s)
	k := gen.KWord
	switch r.Kind {
	case ref.RNewline:
		return c03Unit{[]*gen.Tok{{Kind: gen.KNewline}}, r}
	case ref.ROp, ref.RRedir:
		k = gen.KOp
	}
	return c03Unit{[]*gen.Tok{{Kind: k, Pieces: []gen.Piece{{Text: s}}}}, r}
}

var c03Insert = []string{"a", "b=1", "!", "{", "}", "for", "case", "esac", "in", "if", "elif", "then", "else", "fi", "while", "until", "do", "done",
	"&&", "||", "|", "(", ")", ";;", "&", ";", "\n", ">", "<&", `"x"`, "$v"}

func TestC03(t *testing.T) {
	st := newStats("C03")
	defer st.Write()
	sh, nsh := shard()

	run := func(tt fataler, c c03Case, ntoks int, depth int, rapidCase bool) {
		jr.begin("C03", "reject", c)
		err := checkC03(c)
		jr.end()
		if err != nil {
			fail(tt, "C03", "reject", c, "%v", err)
		}
		nt := c.Verdict != "sentence" && ntoks >= 3 && depth >= 1
		if rapidCase {
			st.Eval(nt, c.Src)
		} else if nt {
			st.EvalN(1, 1)
		} else {
			st.EvalN(1, 0)
		}
		st.Class("verdict_" + c.Verdict)
	}

	// (i) exhaustive token strings (blank-separated)
	var alpha []string
	for _, a := range gen.TokenAlphabet {
		switch a {
		case `\`, "#c", "((", "))":
			continue // their reading depends on the following text, not on the token list
		}
		alpha = append(alpha, a)
	}
	maxn := 3
	if thorough() {
		maxn = 4
	}
	idx := 0
	var rec func(prefix []string, depth int)
	rec = func(prefix []string, depth int) {
		idx++
		if idx%nsh == sh {
			var rs []ref.RTok
			var starts []int
			off := 0
			for i, s := range prefix {
				if i > 0 {
					off++
				}
				starts = append(starts, off)
				off += len(s)
				rs = append(rs, rtokOfText(s))
			}
			src := strings.Join(prefix, " ")
			v := ref.Recognise(rs)
			d := 0
			for _, s := range prefix[:max(len(prefix)-1, 0)] {
				switch s {
				case "(", "{", "if", "while", "until", "for", "case", "then", "do", "else", "elif":
					d++
				}
			}
			run(t, c03Case{Src: src, Verdict: v.String(), Marks: marksOf(src, starts), How: "token string"}, len(prefix), d, false)
			if idx%30011 == 0 {
				st.Sample(map[string]any{"src": src, "verdict": v.String()})
			}
		}
		if len(prefix) == maxn {
			return
		}
		for _, a := range alpha {
			rec(append(append([]string{}, prefix...), a), depth)
		}
	}
	rec(nil, 0)
	st.Exhaustive = true
	st.Note("exhaustive: all blank-separated strings of <= %d tokens over %d tokens (every reserved word, control and redirection operator, newline, one representative of every word form), classified by an independent recursive-descent recogniser; two-sided (sentences must be accepted, everything else rejected)", maxn, len(alpha))

	// (ii) single-token mutations of generated programs, (iii) unterminated constructs
	n := 12000
	if thorough() {
		n = 300000
	}
	n /= nsh
	prop := func(rt *rapid.T) {
		o := genOpts()
		o.NoHeredoc = true
		o.MaxDepth = rapid.IntRange(1, 3).Draw(rt, "maxdepth")
		o.Budget = rapid.IntRange(1, 6).Draw(rt, "budget")
		p := gen.Complete(gen.RapidChooser{T: rt}, o)
		us := unitsOf(p.Stream)
		depthAt := func(i int) int {
			if i < len(us) && i >= 0 {
				return us[i].toks[0].Depth
			}
			return 0
		}
		try := func(mut []c03Unit, how string, at int) {
			src, starts, rs := renderUnits(mut)
			v := ref.Recognise(rs)
			run(rt, c03Case{Src: src, Verdict: v.String(), Marks: marksOf(src, starts), How: how}, len(mut), depthAt(at), true)
			st.Class("mutation:" + strings.SplitN(how, " ", 2)[0])
			st.Sample(map[string]any{"src": src, "verdict": v.String(), "how": how})
		}
		cp := func() []c03Unit { return append([]c03Unit{}, us...) }
		// every deletion, duplication and adjacent swap; one drawn insertion per position
		for i := range us {
			m := cp()
			try(append(m[:i:i], us[i+1:]...), fmt.Sprintf("delete token %d of %q", i, us[i].r.Text), i)
			m = cp()
			d := append(m[:i+1:i+1], us[i:]...)
			try(d, fmt.Sprintf("duplicate token %d %q", i, us[i].r.Text), i)
			if i+1 < len(us) {
				m = cp()
				m[i], m[i+1] = m[i+1], m[i]
				try(m, fmt.Sprintf("swap tokens %d,%d", i, i+1), i)
			}
		}
		for i := 0; i <= len(us); i++ {
			ins := c03Insert[rapid.IntRange(0, len(c03Insert)-1).Draw(rt, "insert")]
			m := cp()
			d := append(append(m[:i:i], alphabetUnit(ins)), us[i:]...)
			try(d, fmt.Sprintf("insert %q at %d", ins, i), i)
		}
		// (iii) an unterminated last token: ill-formed by construction
		base := strings.TrimRight(gen.Render(p.Stream, gen.Canonical{}).Src, "\n")
		tail := rapid.SampledFrom([]string{"'abc", `"abc`, "${x", "${x:-", "$(a", "`a", "$((1", "((1", "<<E", "<<E\nbody",
			"<<A <<B\nx\nA", "<<A <<B\nx\nA\n", "<<A <<B\nA\nB x\n", "<<-A <<B\n\tA\nb", "<<'A' <<B\n$x\nA\n$(", "<<A\n${x", "<<A\n$(a", "<<A\n`a\nA\n",
			// the delimiter text at the end of a body line is not the delimiter line
			"<<-E\n${x}E\n", "<<E\n$(c)E\n", "<<E\n\\$E\n", "<<-E\n\t$x E\n", "<<E\nxE\n E\n"}).Draw(rt, "tail")
		lastTop := p.Stream.Toks[len(p.Stream.Toks)-1]
		if lastTop.Kind == gen.KNewline && len(p.Stream.Toks) > 1 {
			lastTop = p.Stream.Toks[len(p.Stream.Toks)-2]
		}
		if lastTop.Kind == gen.KOp && strings.HasPrefix(tail, "((") {
			tail = "'abc"
		}
		src := base + " " + tail
		r := gen.Render(p.Stream, gen.Canonical{})
		starts := append([]int{}, r.Starts...)
		for o := len(base) + 1; o < len(src); o++ {
			starts = append(starts, o) // tokens of the unterminated construct itself
		}
		marks := marksOf(src, starts)
		run(rt, c03Case{Src: src, Verdict: "incomplete", Marks: marks, How: "unterminated " + tail + " appended"}, len(us)+1, 1, true)
		st.Class("unterminated_tail")
		// (iv) a word with a malformed expansion: the length form takes no operator
		if lastTop.Kind != gen.KOp {
			bad := rapid.SampledFrom([]string{"${#x:-y}", "${#x%y}", "${#x=y}", "${#x+y}", "${#x?}", "${#1-}", `"${#x:-y}"`, "a${#x#y}b", "${#x:=}", "${#foo##*}",
				// a backquote is not the ")" of a case pattern, of "f()" or of a subshell
				"`case x in a` b;; esac`", "`f(` { a; }`", "`(a` b", "x`case y in (a|b` c;; esac`",
				// a here-document whose substitution ends on the line of the operator has no body
				"$(cat <<E)", "`cat <<-E`", "$( (cat <<E) )", "x$(a; cat <<E)y", "\"$(cat <<'E')\"", "$(cat <<A <<B)", "${x:-$(cat <<E)}",
				// one closing parenthesis too many inside an arithmetic expansion
				"$(( 1 ) ))", "x$(( (1 ) ) ))y", "\"$(( 1 ) + 2 ))\"", "$(( ) ))"}).Draw(rt, "badword")
			src := base + " " + bad + "\n"
			starts := append([]int{}, r.Starts...)
			for o := len(base) + 1; o < len(src); o++ {
				starts = append(starts, o)
			}
			run(rt, c03Case{Src: src, Verdict: "invalid", Marks: marksOf(src, starts), How: "word with the malformed expansion " + bad + " appended"}, len(us)+2, 1, true)
			st.Class("malformed_expansion")
		}
		// (v) names that are not names: a for loop over / a function named like that
		{
			var bad string
			if rapid.Bool().Draw(rt, "badfor") {
				// a name begins with a letter or "_" (a digit of another script is still a digit)
				bad = "for " + rapid.SampledFrom([]string{"1a", "\u0663", "\u0663a", "a-b", "a.b", "9", "a+", "\u00b2", "x$y", `x"y"`, `x\y`, "x${y}z", "x''", "x`y`", "x$((1))", `"x"`, "$x", "x=1", "x*"}).Draw(rt, "badname") + " in a; do b; done"
			} else {
				// special built-in utilities cannot be function names
				bad = rapid.SampledFrom([]string{"break", "continue", "eval", "exec", "exit", "export", "readonly", "return", "set", "shift", "times", "trap", "unset"}).Draw(rt, "spbuiltin") + "() { a; }"
			}
			if rapid.IntRange(0, 3).Draw(rt, "reserved_behind_redir") == 0 {
				// behind the redirection of a compound command a reserved word is an ordinary word
				bad = rapid.SampledFrom([]string{"{ { a; } >f }", "if { a; } >f then b; fi", "if a; then { b; } >f fi", "while { a; } >f do b; done", "while a; do { b; } 2>&1 done", "( a ) >f then", "for i in a; do { b; } <f done", "case x in a) { b; } >f esac", "if a; then b; else { c; } >f fi", "{ if a; then b; fi >f }", "{ (a) >f }", "until { a; } >f 2>&1 do b; done", "{ { a; } <<E }\nE\n", "if a; then { b; } >f elif c; then d; fi"}).Draw(rt, "reserved_behind_redir_src")
			}
			if rapid.IntRange(0, 5).Draw(rt, "arith_paren") == 0 {
				// one closing parenthesis too many inside the arithmetic command
				bad = rapid.SampledFrom([]string{"(( 1 ) ))", "if (( x = 1 ) )); then a; fi", "(( ( 1 ) ) ))", "while (( i ) )); do a; done", "(( ) ))"}).Draw(rt, "arith_paren_src")
			}
			sep := "; "
			if lastTop.Kind == gen.KOp {
				sep = " "
			}
			src := base + sep + bad + "\n"
			starts := append([]int{}, r.Starts...)
			for o := len(base) + 1; o < len(src); o++ {
				starts = append(starts, o)
			}
			run(rt, c03Case{Src: src, Verdict: "invalid", Marks: marksOf(src, starts), How: "followed by " + bad}, len(us)+6, 1, true)
			st.Class("invalid_name")
		}
		featStats(st, p)
	}
	runRapid(t, n, prop)

	// (vi) here-documents: one to three pending at one newline, which the
	// lexer reaches from different states; then one thing is damaged
	hdProp := func(rt *rapid.T) {
		type hd struct {
			op, word, delim string
			quoted          bool
			body            []string
		}
		nhd := rapid.IntRange(1, 3).Draw(rt, "nhd")
		var hds []hd
		for i := 0; i < nhd; i++ {
			d := string(rune('A'+i)) + rapid.SampledFrom([]string{"", "1", "_e"}).Draw(rt, "dsuffix")
			h := hd{op: rapid.SampledFrom([]string{"<<", "<<-"}).Draw(rt, "op"), delim: d, word: d}
			switch rapid.IntRange(0, 5).Draw(rt, "dform") {
			case 0:
				h.word, h.quoted = "'"+d+"'", true
			case 1:
				h.word, h.quoted = `\`+d, true
			case 2:
				h.word, h.quoted = `"`+d+`"`, true
			}
			for j := rapid.IntRange(0, 2).Draw(rt, "nlines"); j > 0; j-- {
				h.body = append(h.body, rapid.SampledFrom([]string{"x", "a b", "$v", "  y", "", "\tz", "${v:-w}", "q" + d, d + "q"}).Draw(rt, "line"))
			}
			hds = append(hds, h)
		}
		ctx := rapid.SampledFrom([]string{"plain", "and", "or", "pipe", "brace", "case", "subshell", "if", "func", "semi"}).Draw(rt, "ctx")
		comment := rapid.SampledFrom([]string{"", "", " #x", " # c", " #"}).Draw(rt, "comment")
		// damage
		kind := rapid.SampledFrom([]string{"none", "bad_expansion", "delimiter_line_deleted", "delimiter_line_altered", "cut_behind_delimiter"}).Draw(rt, "damage")
		at := rapid.IntRange(0, nhd-1).Draw(rt, "at")
		verdict := "sentence"
		build := func() string {
			var b strings.Builder
			ops := ""
			for _, h := range hds {
				ops += " " + h.op + h.word
			}
			tail := ""
			switch ctx {
			case "plain":
				b.WriteString("cat" + ops + comment + "\n")
			case "semi":
				b.WriteString("cat" + ops + "; b" + comment + "\n")
			case "and":
				b.WriteString("cat" + ops + " &&" + comment + "\n")
				tail = "b\n"
			case "or":
				b.WriteString("cat" + ops + " ||" + comment + "\n")
				tail = "b\n"
			case "pipe":
				b.WriteString("cat" + ops + " |" + comment + "\n")
				tail = "b\n"
			case "brace":
				b.WriteString("{ cat" + ops + comment + "\n")
				tail = "}\n"
			case "subshell":
				b.WriteString("(cat" + ops + ")" + comment + "\n")
			case "case":
				b.WriteString("case x in a) cat" + ops + " ;;" + comment + "\n")
				tail = "esac\n"
			case "if":
				b.WriteString("if cat" + ops + "; then" + comment + "\n")
				tail = "b; fi\n"
			case "func":
				b.WriteString("f()" + comment + "\n{ cat" + ops + "\n")
				tail = "}\n"
			}
			for i, h := range hds {
				body := append([]string{}, h.body...)
				if kind == "bad_expansion" && i == at {
					bad := rapid.SampledFrom([]string{"${", "$(if", "${z", "`a", "$((1", "${x:-", "a ${#x:-y}"}).Draw(rt, "bad")
					pos := rapid.IntRange(0, len(body)).Draw(rt, "badpos")
					body = append(body[:pos:pos], append([]string{bad}, body[pos:]...)...)
					if !h.quoted {
						verdict = "invalid"
					}
				}
				for _, l := range body {
					b.WriteString(l + "\n")
				}
				dl := h.delim
				if h.op == "<<-" {
					dl = strings.Repeat("\t", rapid.IntRange(0, 2).Draw(rt, "tabs")) + dl
				}
				if i == at {
					switch kind {
					case "delimiter_line_deleted":
						verdict = "incomplete"
						continue
					case "delimiter_line_altered":
						verdict = "incomplete"
						alt := rapid.SampledFrom([]string{"x%s", "%sx", " %s", "%s ", "#x%s", "# c%s", "c %s", "\\%s"}).Draw(rt, "alter")
						if h.op == "<<" && rapid.Bool().Draw(rt, "tab_for_plain") {
							alt = "\t%s" // only "<<-" strips tabs
						}
						dl = fmt.Sprintf(alt, dl)
					case "cut_behind_delimiter":
						b.WriteString(dl)
						if !(i == nhd-1 && tail == "") {
							verdict = "incomplete"
						}
						return b.String()
					}
				}
				b.WriteString(dl + "\n")
			}
			b.WriteString(tail)
			return b.String()
		}
		src := build()
		// (the error is only required to lie inside the text consumed so far)
		c := c03Case{Src: src, Verdict: verdict, How: "here-documents in context " + ctx + ", damage " + kind}
		run(rt, c, 3+nhd, 1, true)
		st.Class("heredoc_arrangement:" + kind)
		st.Class("heredoc_context:" + ctx)
		if comment != "" {
			st.Class("heredoc_line_with_comment")
		}
		st.Sample(map[string]any{"src": src, "verdict": verdict, "how": c.How})
	}
	runRapid(t, n*3, hdProp)
	st.Note("here-document arrangements: 1-3 here-documents (<< / <<-, plain / single- / double- / backslash-quoted delimiters) pending at one newline that is reached in ten lexer states (end of a simple command, behind ; && || |, inside { } ( ) case-item if f()), with or without a comment on that line; undamaged (must be accepted), or with an ill-formed expansion in one body (rejected iff that delimiter is unquoted), a delimiter line deleted or altered, or the input cut behind a delimiter line")

	// (vii) the same token strings spread over alias values
	aliasProp := func(rt *rapid.T) {
		nt := rapid.IntRange(1, 5).Draw(rt, "ntokens")
		var toks []string
		for i := 0; i < nt; i++ {
			toks = append(toks, rapid.SampledFrom(alpha).Draw(rt, "tok"))
		}
		var rs []ref.RTok
		for _, s := range toks {
			rs = append(rs, rtokOfText(s))
		}
		v := ref.Recognise(rs)
		// the first k tokens become the value of the alias zq; no newline in it
		// (inside alias text a newline does not end the command)
		k := rapid.IntRange(1, nt).Draw(rt, "k")
		for i := 0; i < k; i++ {
			if toks[i] == "\n" {
				k = i
				break
			}
		}
		if k == 0 {
			return
		}
		join := func(ts []string) string {
			var b strings.Builder
			for i, s := range ts {
				if i > 0 {
					// no blank is needed between a word and a control operator
					isOp := func(t string) bool { return rtokOfText(t).Kind != ref.RWord }
					glue := (ctlOpSet[s] && !isOp(ts[i-1]) || ctlOpSet[ts[i-1]] && !isOp(s) && !strings.HasPrefix(s, "#")) && rapid.Bool().Draw(rt, "glue")
					if !glue {
						b.WriteString(" ")
					}
				}
				b.WriteString(s)
			}
			return b.String()
		}
		al := map[string]string{}
		inner := rapid.IntRange(0, k).Draw(rt, "inner")
		if inner > 0 {
			al["zr"] = join(toks[:inner]) + rapid.SampledFrom([]string{"", " "}).Draw(rt, "innertail")
			al["zq"] = join(append([]string{"zr"}, toks[inner:k]...))
		} else {
			al["zq"] = join(toks[:k])
		}
		al["zq"] += rapid.SampledFrom([]string{"", " "}).Draw(rt, "tail")
		src := join(append([]string{"zq"}, toks[k:]...))
		c := c03Case{Src: src, Verdict: v.String(), How: "token string " + fmt.Sprintf("%q", toks) + " spread over alias values", Aliases: al}
		run(rt, c, nt, 1, true)
		st.Class("alias_spread_token_strings")
		if inner > 0 {
			st.Class("alias_spread_nested")
		}
		st.Sample(map[string]any{"src": src, "aliases": al, "verdict": v.String()})
	}
	// (vii') a reserved word that comes out of an alias in the place of a
	// command name behind assignments or redirections is an ordinary word:
	// the construct it would close (or open) is not closed (or opened)
	{
		frames := [][3]string{
			{"if a ; then", "fi", ""}, {"while", "do", "c ; done"}, {"{", "}", ""}, {"if", "then", "c ; fi"},
			{"for i in x ; do", "done", ""}, {"case x in a )", "esac", ""}, {"if a ; then b ;", "else", "c ; fi"},
			{"if a ; then b ;", "elif", "c ; then d ; fi"}, {"until", "do", "c ; done"},
			{"", "if", "a ; then b ; fi"}, {"", "{", "a ; }"}, {"", "while", "a ; do b ; done"}, {"", "!", "a"},
		}
		k := 0
		for _, fr := range frames {
			for _, prefix := range []string{"b=1", "> f", "b=1 < f c=2", "2 >& 1", "c ;", "c &&", ""} {
				for vi, value := range []string{"%s", "%s ", "zr", "zr "} {
					k++
					if k%nsh != sh || prefix == "" && fr[0] == "" {
						continue
					}
					toks := strings.Fields(fr[0] + " " + prefix + " " + fr[1] + " " + fr[2])
					var rs []ref.RTok
					for _, tk := range toks {
						rs = append(rs, rtokOfText(tk))
					}
					v := ref.Recognise(rs)
					al := map[string]string{"zq": strings.Replace(value, "%s", fr[1], 1)}
					if vi >= 2 {
						al["zr"] = fr[1]
					}
					src := strings.Join(strings.Fields(fr[0]+" "+prefix+" zq "+fr[2]), " ")
					c := c03Case{Src: src, Verdict: v.String(), How: fmt.Sprintf("token string %q with %q coming out of an alias", toks, fr[1]), Aliases: al}
					run(t, c, len(toks), 1, false)
					st.Class("reserved_word_out_of_an_alias_behind_a_prefix")
				}
			}
		}
		st.Note("%d frames x 7 command beginnings x 4 alias values: a reserved word that is the value of an alias used as command name behind a prefix (ordinary word: the program stays ill-formed) or at the beginning of a command (reserved word)", len(frames))
	}

	runRapid(t, n*3, aliasProp)
	st.Note("alias-spread token strings: random strings of 1-5 tokens of the same alphabet whose first k tokens are the value of an alias (optionally the first j of them the value of a second alias the first one begins with), with and without blanks next to control operators and at the end of the values; the verdict is that of the plain token string")
}
