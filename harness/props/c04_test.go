package props

import (
	"fmt"
	"strings"
	"testing"
	"unicode/utf8"

	"github.com/hattya/go.sh/parser"
	"pgregory.net/rapid"

	"verif/gen"
	"verif/oracle"
)

// C04 — every recorded position designates the token it documents.

type c04Case struct {
	Src string `json:"src"`
}

// checkC04 returns the number of position fields compared (0 when the source
// is not accepted: the property quantifies over accepted sources).
func checkC04(c c04Case) (int, error) {
	cmds, comments, err := parser.ParseCommands(nil, "c04", c.Src)
	if err != nil {
		return 0, nil
	}
	var res oracle.PosResult
	if e := guard(func() error {
		res = oracle.CheckPositions(c.Src, cmds, comments)
		return nil
	}); e != nil {
		return 0, fmt.Errorf("position methods: %v\nsrc: %q", e, c.Src)
	}
	if len(res.Errs) > 0 {
		return res.Fields, fmt.Errorf("%d position error(s), first: %s\nsrc: %q\nall: %s", len(res.Errs), res.Errs[0], c.Src, strings.Join(res.Errs, " | "))
	}
	return res.Fields, nil
}

func init() {
	reg("C04", "positions", func(c c04Case) error {
		_, err := checkC04(c)
		return err
	})
}

func c04NonTrivial(src string, fields int) bool {
	if fields < 10 {
		return false
	}
	body := strings.TrimRight(src, "\n")
	return strings.Contains(body, "\n") || len(src) != utf8.RuneCountInString(src) || strings.Contains(src, "$(") || strings.Contains(src, "`")
}

func TestC04(t *testing.T) {
	st := newStats("C04")
	defer st.Write()
	sh, nsh := shard()

	one := func(tt fataler, src string, rapidCase bool, class string) {
		c := c04Case{Src: src}
		jr.begin("C04", "positions", c)
		fields, err := checkC04(c)
		jr.end()
		if err != nil {
			fail(tt, "C04", "positions", c, "%v", err)
		}
		nt := c04NonTrivial(src, fields)
		if rapidCase {
			st.Eval(nt, src)
		} else if nt {
			st.EvalN(1, 1)
		} else {
			st.EvalN(1, 0)
		}
		if fields > 0 {
			st.Class(class + "_accepted")
			st.ClassN("position_fields_compared", int64(fields))
		} else {
			st.Class(class + "_rejected_by_parser")
		}
	}

	// (a) exhaustive token strings, blank-separated and concatenated
	maxn := 3
	if thorough() {
		maxn = 4
	}
	for n := 1; n <= maxn; n++ {
		gen.TokenStrings(n, func(idx int, toks []string) {
			if idx%nsh != sh {
				return
			}
			one(t, strings.Join(toks, " "), false, "tokens_spaced")
			if n > 1 {
				one(t, strings.Join(toks, ""), false, "tokens_fused")
			}
			if idx%40009 == 0 {
				st.Sample(strings.Join(toks, " "))
			}
		})
	}
	st.Exhaustive = true
	st.Note("exhaustive: all strings of <= %d tokens over a %d-token alphabet (every reserved word, operator and word form), written blank-separated and concatenated; only the accepted ones have positions to check", maxn, len(gen.TokenAlphabet))

	// (a') long lines and many lines: columns and line numbers beyond 65535
	if sh == 0 {
		long := []string{
			strings.Repeat("a", 70000) + " b | c >d\n",
			"echo '" + strings.Repeat("x", 66000) + "' $v `c` $((1)) \"q\" # comment\n",
			"cat <<E\n" + strings.Repeat("x", 65532) + "${a}E\nE\n",
			"x=" + strings.Repeat("y", 65533) + " a=b c\n",
			"{\n" + strings.Repeat("a b\n", 66000) + "c | d\n}\n",
			"echo " + strings.Repeat("é", 65530) + " $v x\n",
		}
		for _, src := range long {
			one(t, src, false, "long")
		}
		st.Note("%d sources with lines longer than 65536 characters or more than 65536 lines", len(long))
	}

	// (b) generated programs with randomised, multi-line layout
	n := 200000
	if thorough() {
		n = 4000000
	}
	n /= nsh
	prop := func(rt *rapid.T) {
		o := genOpts()
		o.MaxDepth = rapid.IntRange(1, 4).Draw(rt, "maxdepth")
		o.Budget = rapid.IntRange(2, 12).Draw(rt, "budget")
		p := gen.Complete(gen.RapidChooser{T: rt}, o)
		var lay gen.Layout = gen.Canonical{}
		if rapid.IntRange(0, 3).Draw(rt, "layout") != 0 {
			lay = gen.RandomLayout{T: rt, Comments: true, Conts: true, Linebreaks: true}
		}
		r := gen.Render(p.Stream, lay)
		src := r.Src
		if rapid.IntRange(0, 7).Draw(rt, "bom") == 0 {
			// a byte order mark is an ordinary character of the first word
			src = "\uFEFF" + src
			st.Class("source_begins_with_U+FEFF")
		}
		one(rt, src, true, "generated")
		st.Sample(src)
	}
	runRapid(t, n, prop)
}
