package props

import (
	"errors"
	"fmt"
	"io"
	"os"
	"reflect"
	"strings"
	"syscall"
	"testing"
	"time"
	"unicode/utf8"

	"github.com/hattya/go.sh/ast"
	"github.com/hattya/go.sh/parser"
	"pgregory.net/rapid"

	"verif/gen"
)

// C10 — a failing source reader is reported as that failure.

var errSource = errors.New("injected read failure")

// the error values a failing source returns: a private one, and values of the
// standard library that a lexer might be tempted to treat like io.EOF
var c10Errs = map[string]error{
	"":              errSource,
	"unexpectedEOF": io.ErrUnexpectedEOF,
	"closedPipe":    io.ErrClosedPipe,
	"wrappedEOF":    fmt.Errorf("read: %w", io.EOF),
	"noProgress":    io.ErrNoProgress,
	// errors that call themselves temporary
	"eagain":   syscall.EAGAIN,
	"deadline": os.ErrDeadlineExceeded,
	// error values whose dynamic type cannot be compared with == (a list of
	// errors, a struct with a slice in it), and one that is a parser.Error
	// without a position, as a source that forwards another parse's failure has
	"errorList":   errorList{"first", "second"},
	"errorStruct": errorStruct{msgs: []string{"wrapped"}},
	"parserError": parser.Error{Name: "included.sh", Msg: "syntax error: forwarded"},
}

type errorList []string

func (e errorList) Error() string { return strings.Join(e, "; ") }

type errorStruct struct{ msgs []string }

func (e errorStruct) Error() string { return strings.Join(e.msgs, "; ") }

// sameErr: got is the read error want (the same value, or one that wraps it).
func sameErr(got, want error) bool {
	if reflect.TypeOf(want).Comparable() {
		if reflect.TypeOf(got).Comparable() && got == want {
			return true
		}
		return errors.Is(got, want)
	}
	for e := got; e != nil; e = errors.Unwrap(e) {
		if reflect.DeepEqual(e, want) {
			return true
		}
	}
	return false
}

var c10ErrKinds = []string{"unexpectedEOF", "closedPipe", "wrappedEOF", "noProgress", "eagain", "deadline", "errorList", "errorStruct", "parserError"}

// faultScanner delivers the first K runes of S and fails from then on.
type faultScanner struct {
	s         string
	k         int // runes to deliver
	n         int // runes delivered
	off       int
	lastSize  int
	delivered bool // the failure has been returned at least once
	once      bool // the failure is transient: returned once, then the source goes on
	err       error
	withRune  bool // the first failing call also hands over the next rune, with its size
}

func (f *faultScanner) ReadRune() (rune, int, error) {
	if f.n >= f.k && !(f.once && f.delivered) {
		if f.withRune && !f.delivered && f.off < len(f.s) {
			f.delivered = true
			r, w := utf8.DecodeRuneInString(f.s[f.off:])
			f.off += w
			f.n++
			f.k++
			f.lastSize = w
			return r, w, f.err
		}
		f.delivered = true
		f.lastSize = 0
		return 0, 0, f.err
	}
	if f.off >= len(f.s) {
		f.lastSize = 0
		return 0, 0, io.EOF
	}
	r, w := utf8.DecodeRuneInString(f.s[f.off:])
	f.off += w
	f.n++
	f.lastSize = w
	return r, w, nil
}

func (f *faultScanner) UnreadRune() error {
	if f.lastSize == 0 {
		return errors.New("faultScanner: nothing to unread")
	}
	f.off -= f.lastSize
	f.n--
	f.lastSize = 0
	return nil
}

// faultReader is a plain io.Reader (go.sh wraps it in bufio) that delivers
// the first K bytes and fails from then on.
type faultReader struct {
	s         string
	k         int
	off       int
	delivered bool
	once      bool
	err       error
	withData  bool // the error comes in the same call as the last bytes before it
	chunk     int  // > 0: at most that many bytes per call
}

func (f *faultReader) Read(p []byte) (int, error) {
	if f.off >= f.k && !(f.once && f.delivered) {
		f.delivered = true
		return 0, f.err
	}
	end := f.k
	if end > len(f.s) || f.delivered {
		end = len(f.s)
	}
	if f.chunk > 0 && end > f.off+f.chunk {
		end = f.off + f.chunk
	}
	if f.withData && !f.delivered && end == f.k && f.off < end && f.k <= len(f.s) {
		n := copy(p, f.s[f.off:end])
		f.off += n
		if f.off == f.k {
			f.delivered = true
			return n, f.err
		}
		return n, nil
	}
	if f.off >= end {
		return 0, io.EOF
	}
	n := copy(p, f.s[f.off:end])
	f.off += n
	return n, nil
}

type c10Case struct {
	Src    string `json:"src"`
	K      int    `json:"k"`      // runes (scanner) or bytes (reader) delivered before the failure
	Reader string `json:"reader"` // "scanner" or "reader"
	// Once: the failure is transient (returned by one call; later calls
	// deliver the rest of the source).
	Once bool `json:"once,omitempty"`
	// Any: the source is not known to be well-formed. A syntax error found
	// before the failure is then a legitimate answer; what remains is: the
	// call returns, with an error, which is the read error or a parser.Error.
	Any bool `json:"any,omitempty"`
	// Err selects the error value (see c10Errs); empty: a private error.
	Err string `json:"err,omitempty"`
	// WithData / Chunk (io.Reader only): the error is returned by the same
	// Read call as the last bytes before it; at most Chunk bytes per call.
	// WithData for the scanner: the failing ReadRune call returns the next
	// rune and its size along with the error.
	WithData bool `json:"with_data,omitempty"`
	Chunk    int  `json:"chunk,omitempty"`
}

// checkC10 returns whether the fault was delivered.
func checkC10(c c10Case) (bool, error) {
	var src interface{}
	var delivered func() bool
	if c.Reader == "reader" {
		fr := &faultReader{s: c.Src, k: c.K, once: c.Once, err: c10Errs[c.Err], withData: c.WithData, chunk: c.Chunk}
		src, delivered = fr, func() bool { return fr.delivered }
	} else {
		fs := &faultScanner{s: c.Src, k: c.K, once: c.Once, err: c10Errs[c.Err], withRune: c.WithData}
		src, delivered = fs, func() bool { return fs.delivered }
	}
	type res struct {
		cmds []ast.Command
		err  error
	}
	done := make(chan res, 1)
	go func() {
		cmds, _, err := parser.ParseCommands(nil, "c10", src)
		done <- res{cmds, err}
	}()
	var r res
	select {
	case r = <-done:
	case <-time.After(20 * time.Second):
		return true, fmt.Errorf("ParseCommands did not return within 20s with the %s failing after %d of %q", c.Reader, c.K, c.Src)
	}
	if !delivered() {
		return false, nil
	}
	if c.Once {
		c.Reader += " (one transient failure)"
	}
	if r.err == nil {
		return true, fmt.Errorf("the %s failed (%v) after %d units of %q, but ParseCommands returned a nil error (%d commands)", c.Reader, c10Errs[c.Err], c.K, c.Src, len(r.cmds))
	}
	if _, isSyntax := r.err.(parser.Error); c.Any && isSyntax {
		return true, nil
	}
	if !sameErr(r.err, c10Errs[c.Err]) || c.Err == "wrappedEOF" && r.err == io.EOF {
		return true, fmt.Errorf("the %s failed after %d units of %q with %q, but ParseCommands returned %q instead of the read error", c.Reader, c.K, c.Src, c10Errs[c.Err], r.err)
	}
	return true, nil
}

// checkC10Chunking: how an io.Reader cuts its bytes into Read calls, and
// whether it returns its error together with the last bytes or by a call of
// its own, does not change the result.
func checkC10Chunking(c c10Case) error {
	type outcome struct {
		n    int
		err  string
		read bool
	}
	run := func(c c10Case) (outcome, error) {
		fr := &faultReader{s: c.Src, k: c.K, once: c.Once, err: c10Errs[c.Err], withData: c.WithData, chunk: c.Chunk}
		done := make(chan outcome, 1)
		go func() {
			cmds, _, err := parser.ParseCommands(nil, "c10", fr)
			o := outcome{n: len(cmds), read: err != nil && sameErr(err, c10Errs[c.Err])}
			if err != nil {
				o.err = err.Error()
			}
			done <- o
		}()
		select {
		case o := <-done:
			return o, nil
		case <-time.After(20 * time.Second):
			return outcome{}, fmt.Errorf("ParseCommands did not return within 20s (reader: %d bytes per call, error with data: %v, failing after %d of %q)", c.Chunk, c.WithData, c.K, c.Src)
		}
	}
	plain := c
	plain.WithData, plain.Chunk = false, 0
	want, err := run(plain)
	if err != nil {
		return err
	}
	got, err := run(c)
	if err != nil {
		return err
	}
	if got != want {
		return fmt.Errorf("the reader fails after %d bytes of %q: delivered in one piece with the error by a call of its own the result is %d commands, error %q; delivered %d bytes per call with the error together with the last bytes (%v) it is %d commands, error %q", c.K, c.Src, want.n, want.err, c.Chunk, c.WithData, got.n, got.err)
	}
	return nil
}

func init() {
	reg("C10", "chunking", checkC10Chunking)
	reg("C10", "file", checkC10File)
	reg("C10", "fault", func(c c10Case) error {
		_, err := checkC10(c)
		return err
	})
}

// c10Inside reports whether offset k (runes) of src lies strictly inside a
// multi-character operator, a quote, an expansion or a here-document.
func c10Inside(src []rune, k int) bool {
	if k <= 0 || k >= len(src) {
		return false
	}
	two := string(src[k-1 : k+1])
	switch two {
	case "&&", "||", ";;", "<<", ">>", "<&", ">&", "<>", ">|", "((", "))", "$(", "${", "<-":
		return true
	}
	// inside quotes / expansions / here-documents: approximate by counting
	// openers before k
	pre := string(src[:k])
	return strings.Count(pre, "'")%2 == 1 || strings.Count(pre, `"`)%2 == 1 || strings.Count(pre, "${") > strings.Count(pre, "}") ||
		strings.Count(pre, "$(") > strings.Count(pre, ")") || strings.Count(pre, "`")%2 == 1 || strings.Contains(pre, "<<") && strings.Contains(pre, "\n")
}

var c10Damage = []string{"f() a;", "f() a", ")", "(", "$(", "`", "'", "\"", "${", "$((", "((", ";;", "&&", "|", "<<E", "do", "done", "fi", "esac", "}", "{", "then", "in", "!", "\n", ";", "&", " x "}

// c10File: the source is a real *os.File whose Read fails (or does not).
type c10File struct {
	How string `json:"how"` // healthy | write-only | closed | directory | pipe-closed
	Src string `json:"src"`
}

func checkC10File(c c10File) error {
	dir, err := os.MkdirTemp(outDir(), "c10-file-")
	if err != nil {
		return fmt.Errorf("harness: %v", err)
	}
	defer os.RemoveAll(dir)
	path := dir + "/script.sh"
	if err := os.WriteFile(path, []byte(c.Src), 0o644); err != nil {
		return fmt.Errorf("harness: %v", err)
	}
	var f *os.File
	wantErr := true
	switch c.How {
	case "healthy":
		f, err = os.Open(path)
		wantErr = false
	case "write-only":
		f, err = os.OpenFile(path, os.O_WRONLY, 0)
	case "closed":
		if f, err = os.Open(path); err == nil {
			f.Close()
		}
	case "directory":
		f, err = os.Open(dir)
	case "pipe-closed":
		var w *os.File
		if f, w, err = os.Pipe(); err == nil {
			w.WriteString(c.Src)
			w.Close()
			f.Close()
		}
	default:
		return fmt.Errorf("harness: unknown file source %q", c.How)
	}
	if err != nil {
		return fmt.Errorf("harness: %v", err)
	}
	defer f.Close()
	// what the file itself says when it is read
	var probe error
	if wantErr {
		g := f
		if c.How == "write-only" {
			if g, err = os.OpenFile(path, os.O_WRONLY, 0); err != nil {
				return fmt.Errorf("harness: %v", err)
			}
			defer g.Close()
		} else if c.How == "directory" {
			if g, err = os.Open(dir); err != nil {
				return fmt.Errorf("harness: %v", err)
			}
			defer g.Close()
		}
		_, probe = g.Read(make([]byte, 16))
		if probe == nil || probe == io.EOF {
			return fmt.Errorf("harness: reading a %s file does not fail here (%v)", c.How, probe)
		}
	}
	var cmds []ast.Command
	var perr error
	if !c06Within(20*time.Second, func() { cmds, _, perr = parser.ParseCommands(nil, "c10", f) }) {
		return fmt.Errorf("ParseCommands on a %s *os.File did not return within 20s", c.How)
	}
	if !wantErr {
		want, _, werr := parser.ParseCommands(nil, "c10", c.Src)
		if (perr != nil) != (werr != nil) || len(cmds) != len(want) {
			return fmt.Errorf("ParseCommands on a healthy *os.File holding %q: %d commands, error %v; the same text as a string: %d commands, error %v", c.Src, len(cmds), perr, len(want), werr)
		}
		return nil
	}
	if perr == nil {
		return fmt.Errorf("ParseCommands on a %s *os.File (whose Read fails with %v) returned a nil error and %d command(s)", c.How, probe, len(cmds))
	}
	var pe, qe *os.PathError
	if errors.As(probe, &pe) && !(errors.As(perr, &qe) && qe.Err == pe.Err) && !errors.Is(perr, pe.Err) {
		return fmt.Errorf("ParseCommands on a %s *os.File returned %v (%T); the read fails with %v", c.How, perr, perr, probe)
	}
	return nil
}

func TestC10(t *testing.T) {
	st := newStats("C10")
	defer st.Write()
	sh, nsh := shard()

	// real files as sources
	if sh == 3%nsh {
		for _, how := range []string{"healthy", "write-only", "closed", "directory", "pipe-closed"} {
			for _, src := range []string{"echo hi\n", "", "a\nb\n", "cat <<E\nx\nE\n", "if a; then\nb\nfi\n", strings.Repeat("a b c\n", 2000)} {
				c := c10File{How: how, Src: src}
				if err := checkC10File(c); err != nil {
					fail(t, "C10", "file", c, "%v", err)
				}
				st.EvalN(1, 1)
				st.Class("os_file_source_" + how)
			}
		}
		st.Note("sources of type *os.File: healthy, opened write-only, closed, a directory, the read end of a closed pipe x 6 texts (empty, one line, several lines, a here-document, 12 kB)")
	}

	var anySrc bool
	enumerate := func(tt fataler, src string, rapidCase bool) {
		rs := []rune(src)
		for _, reader := range []string{"scanner", "reader"} {
			limit := len(rs)
			if reader == "reader" {
				limit = len(src)
			}
			for k := 0; k <= limit; k++ {
				if reader == "reader" && k < len(src) && !utf8.RuneStart(src[k]) {
					continue // faults are placed on rune boundaries
				}
				c := c10Case{Src: src, K: k, Reader: reader, Any: anySrc}
				jr.begin("C10", "fault", c)
				delivered, err := checkC10(c)
				jr.end()
				if err != nil {
					fail(tt, "C10", "fault", c, "%v", err)
				}
				if delivered {
					// the same position with a failure that goes away again, and
					// with an error value of the standard library
					c.Once = true
					c.Err = c10ErrKinds[k%len(c10ErrKinds)]
					jr.begin("C10", "fault", c)
					_, err := checkC10(c)
					jr.end()
					if err != nil {
						fail(tt, "C10", "fault", c, "%v", err)
					}
					st.Class("transient_fault_delivered_" + reader)
					if reader == "reader" {
						// the same fault, the bytes cut differently and the error together with the last of them
						cc := c10Case{Src: src, K: k, Reader: reader, Any: anySrc, Once: k%2 == 0, Err: c.Err, WithData: true, Chunk: []int{0, 1, 3, 7}[k%4]}
						jr.begin("C10", "chunking", cc)
						err := checkC10Chunking(cc)
						jr.end()
						if err != nil {
							fail(tt, "C10", "chunking", cc, "%v", err)
						}
						st.Class("chunking_compared")
					}
					if reader == "scanner" {
						// the failing call hands over a rune as well: whatever is
						// done with the rune, the failure is reported
						cc := c10Case{Src: src, K: k, Reader: reader, Any: anySrc, Once: k%2 == 1, Err: c.Err, WithData: true}
						jr.begin("C10", "fault", cc)
						_, err := checkC10(cc)
						jr.end()
						if err != nil {
							fail(tt, "C10", "fault", cc, "%v", err)
						}
						st.Class("scanner_fault_with_a_rune")
					}
					if k%3 == 0 {
						c.Once = false
						c.Err = c10ErrKinds[(k/3)%len(c10ErrKinds)]
						jr.begin("C10", "fault", c)
						_, err := checkC10(c)
						jr.end()
						if err != nil {
							fail(tt, "C10", "fault", c, "%v", err)
						}
						st.Class("persistent_fault_with_stdlib_error_value")
					}
				}
				if !delivered {
					st.EvalN(1, 0)
					st.Class("fault_not_reached")
					continue
				}
				rk := k
				if reader == "reader" {
					rk = utf8.RuneCountInString(src[:k])
				}
				inside := c10Inside(rs, rk)
				if rapidCase {
					st.Eval(inside, src, fmt.Sprint(k), reader)
				} else if inside {
					st.EvalN(1, 1)
				} else {
					st.EvalN(1, 0)
				}
				st.Class("fault_delivered_" + reader)
			}
		}
	}

	// (a) every accepted string of <= 2 (thorough 3) tokens, all fault positions
	maxn := 2
	if thorough() {
		maxn = 3
	}
	for n := 1; n <= maxn; n++ {
		gen.TokenStrings(n, func(idx int, toks []string) {
			if idx%nsh != sh {
				return
			}
			for _, src := range []string{strings.Join(toks, " "), strings.Join(toks, "")} {
				if _, _, err := parser.ParseCommands(nil, "c10", src); err != nil {
					continue
				}
				enumerate(t, src, false)
				if idx%997 == 0 {
					st.Sample(map[string]any{"src": src, "faults": "every rune index, both reader kinds"})
				}
			}
		})
	}
	st.Note("complete single-fault space of every accepted string of <= %d tokens (blank-separated and concatenated) and of every generated program: the reader fails persistently from rune index k on, for every k in [0, len], as custom RuneScanner and as io.Reader", maxn)

	// (b) generated programs
	n := 6000
	if thorough() {
		n = 150000
	}
	n /= nsh
	prop := func(rt *rapid.T) {
		o := genOpts()
		o.MaxDepth = rapid.IntRange(1, 3).Draw(rt, "maxdepth")
		o.Budget = rapid.IntRange(1, 6).Draw(rt, "budget")
		p := gen.Complete(gen.RapidChooser{T: rt}, o)
		var lay gen.Layout = gen.Canonical{}
		if rapid.IntRange(0, 2).Draw(rt, "layout") != 0 {
			lay = gen.RandomLayout{T: rt, Comments: true, Conts: true, Linebreaks: true}
		}
		src := gen.Render(p.Stream, lay).Src
		if rapid.IntRange(0, 3).Draw(rt, "damage") == 0 {
			// a damaged program: a syntax error may come first, but the call
			// still has to return with an error and must not hang or crash
			rs := []rune(src)
			for i := rapid.IntRange(1, 3).Draw(rt, "nmut"); i > 0 && len(rs) > 0; i-- {
				at := rapid.IntRange(0, len(rs)-1).Draw(rt, "at")
				ins := []rune(rapid.SampledFrom(c10Damage).Draw(rt, "ins"))
				if rapid.Bool().Draw(rt, "replace") {
					rs = append(rs[:at:at], append(ins, rs[at+1:]...)...)
				} else {
					rs = append(rs[:at:at], append(ins, rs[at:]...)...)
				}
			}
			anySrc = true
			enumerate(rt, string(rs), true)
			anySrc = false
			st.Class("damaged_program")
			return
		}
		if _, _, err := parser.ParseCommands(nil, "c10", src); err != nil {
			// the quantifier ranges over accepted programs
			st.Class("program_not_accepted_skipped")
			return
		}
		enumerate(rt, src, true)
		st.Sample(map[string]any{"src": src, "faults": "every rune index, both reader kinds"})
		featStats(st, p)
	}
	runRapid(t, n, prop)
}
