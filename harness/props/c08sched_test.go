//go:build verif

package props

import (
	"fmt"
	"strings"
	"testing"
	"time"

	"pgregory.net/rapid"

	"verif/gen"
	"verif/sched"
)

// The schedule dimension of C08: every generated here-document command is
// also parsed under the two extreme schedules of the lexer / parser pair
// ("whoever was released last runs again" and "always the other one") and
// under a drawn schedule; the per-redirection oracle of checkC08 must hold
// under each of them.

type c08SchedCase struct {
	C08      c08Case `json:"c08"`
	Schedule []int   `json:"schedule"`
}

func checkC08Sched(c c08SchedCase) error {
	var err error
	res := sched.Run(c.Schedule, false, func() { err = checkC08(c.C08) })
	if res.Deadlock {
		// believed only when it repeats
		for i := 0; i < 2 && res.Deadlock; i++ {
			res = sched.Run(c.Schedule, false, func() { err = checkC08(c.C08) })
		}
		if res.Deadlock {
			// on a busy machine six seconds prove nothing: once more with two minutes
			sched.Patience(2*time.Minute, func() {
				res = sched.Run(c.Schedule, false, func() { err = checkC08(c.C08) })
			})
		}
		if res.Deadlock {
			return fmt.Errorf("under schedule %v the parse of %q never returns (deadlock)", c.Schedule, c.C08.Src)
		}
	}
	if err != nil {
		return fmt.Errorf("under schedule %v: %v", c.Schedule, err)
	}
	return nil
}

func init() { reg("C08", "heredoc-schedule", checkC08Sched) }

func TestC08Sched(t *testing.T) {
	st := newStats("C08")
	defer st.Write()
	_, nsh := shard()
	n := 6000
	if thorough() {
		n = 150000
	}
	n /= nsh
	ones := make([]int, 400)
	for i := range ones {
		ones[i] = 1
	}
	prop := func(rt *rapid.T) {
		o := genOpts()
		o.MoreHeredocs = true
		o.MaxDepth = rapid.IntRange(1, 3).Draw(rt, "maxdepth")
		o.Budget = rapid.IntRange(1, 5).Draw(rt, "budget")
		p := gen.Complete(gen.RapidChooser{T: rt}, o)
		if len(p.HDs) == 0 {
			return
		}
		src := gen.Render(p.Stream, gen.Canonical{}).Src
		c := c08CaseOf(p, src)
		drawn := rapid.SliceOfN(rapid.IntRange(0, 3), 0, 60).Draw(rt, "schedule")
		for _, sc := range [][]int{nil, ones, drawn} {
			cc := c08SchedCase{C08: c, Schedule: sc}
			jr.begin("C08", "heredoc-schedule", cc)
			err := checkC08Sched(cc)
			jr.end()
			if err != nil && strings.Contains(err.Error(), "harness:") {
				st.Class("skipped_source_not_accepted")
				return
			}
			if err != nil {
				fail(rt, "C08", "heredoc-schedule", cc, "%v", err)
			}
			st.Eval(true, src, fmt.Sprint(sc))
		}
		st.Class("commands_under_three_schedules")
		st.Sample(map[string]any{"src": src, "schedules": "lexer-first, parser-first, drawn"})
	}
	runRapid(t, n, prop)
	st.Note("schedule dimension: each here-document command is parsed under the controlled scheduler with the two extreme schedules and one rapid-drawn schedule; the same per-redirection oracle must hold under each")
}
