package props

import (
	"fmt"
	"strings"
	"testing"
	"unicode/utf8"

	"github.com/hattya/go.sh/pattern"
	"pgregory.net/rapid"

	"verif/ref"
)

// C12 — pattern matching in all four removal modes.

type c12Case struct {
	Patterns []string `json:"patterns"`
	Mode     uint     `json:"mode"` // pattern.Mode bits
	Subject  string   `json:"subject"`
}

func modeName(m uint) string {
	var s []string
	if m&uint(pattern.Prefix) != 0 {
		s = append(s, "Prefix")
	}
	if m&uint(pattern.Suffix) != 0 {
		s = append(s, "Suffix")
	}
	if m&uint(pattern.Smallest) != 0 {
		s = append(s, "Smallest")
	}
	if m&uint(pattern.Largest) != 0 {
		s = append(s, "Largest")
	}
	return strings.Join(s, "|")
}

// lenient parses p under the literal reading POSIX gives to an unterminated
// "[" and a trailing backslash; nil if no such reading exists.
func lenient(p string) *ref.Pattern {
	rs := []rune(p)
	for i := 0; i < len(rs); i++ {
		if rs[i] == '\\' {
			if i+1 == len(rs) {
				// trailing backslash: ordinary character
				if pt, err := ref.ParsePattern(string(rs[:i]) + `\\`); err == nil {
					return pt
				}
				return nil
			}
			i++
			continue
		}
		if rs[i] == '[' {
			if _, err := ref.ParsePattern(string(rs[i:])); err == ref.ErrMalformed {
				// try with this "[" taken literally
				q := string(rs[:i]) + `\[` + string(rs[i+1:])
				if pt, err := ref.ParsePattern(q); err == nil {
					return pt
				}
				if pt := lenient(q); pt != nil {
					return pt
				}
				return nil
			}
		}
	}
	return nil
}

type c12Verdict int

const (
	c12Checked c12Verdict = iota
	c12Malformed
	c12Unmodelled
)

func checkC12(c c12Case) (c12Verdict, bool, error) {
	mode := pattern.Mode(c.Mode)
	var got string
	var gerr error
	if err := guard(func() error {
		got, gerr = pattern.Match(c.Patterns, mode, c.Subject)
		return nil
	}); err != nil {
		return c12Checked, false, fmt.Errorf("Match(%q, %s, %q) %v", c.Patterns, modeName(c.Mode), c.Subject, err)
	}
	switch c.Mode {
	case c12Modes[0], c12Modes[1], c12Modes[2], c12Modes[3]:
	default:
		// flag combinations outside the four modes of the property are
		// only run for "no panic"
		return c12Unmodelled, false, nil
	}
	var pats, alts []*ref.Pattern
	malformed, wild, openClass := false, false, false
	for _, p := range c.Patterns {
		pt, err := ref.ParsePattern(p)
		switch err {
		case nil:
			pats = append(pats, pt)
			wild = wild || pt.Wild
			openClass = openClass || pt.OpenClass
			alt, _ := ref.ParsePatternAlt(p)
			alts = append(alts, alt)
		case ref.ErrMalformed:
			malformed = true
		default:
			return c12Unmodelled, false, nil
		}
	}
	s := []rune(c.Subject)
	prefix := mode&pattern.Prefix != 0
	smallest := mode&pattern.Smallest != 0 && mode&pattern.Largest == 0
	cut := func(k int) string {
		if prefix {
			return string(s[:k])
		}
		return string(s[len(s)-k:])
	}
	if malformed {
		// an error is required; the POSIX literal reading is tolerated too
		if gerr != nil && gerr != pattern.NoMatch {
			return c12Malformed, false, nil
		}
		if len(c.Patterns) > 1 {
			// no error: then at least the answer must come from the patterns,
			// each read on its own (well-formed, or under the literal reading)
			if gerr == pattern.NoMatch {
				return c12Malformed, false, nil
			}
			var all []*ref.Pattern
			for _, p := range c.Patterns {
				if pt, err := ref.ParsePattern(p); err == nil {
					all = append(all, pt)
				} else if pt := lenient(p); pt != nil {
					all = append(all, pt)
				}
			}
			for _, k := range ref.Affixes(all, prefix, s) {
				if cut(k) == got {
					return c12Malformed, false, nil
				}
			}
			return c12Malformed, false, fmt.Errorf("Match(%q, %s, %q): one pattern is malformed; got %q, which none of the patterns matches, however the malformed one is read", c.Patterns, modeName(c.Mode), c.Subject, got)
		}
		pt := lenient(c.Patterns[0])
		if pt == nil {
			if gerr == pattern.NoMatch {
				return c12Malformed, false, nil
			}
			return c12Malformed, false, fmt.Errorf("Match(%q, %s, %q): malformed pattern, want an error, got %q", c.Patterns, modeName(c.Mode), c.Subject, got)
		}
		pats = []*ref.Pattern{pt}
	}
	aff := ref.Affixes(pats, prefix, s)
	if openClass && !malformed {
		// a "[:" that begins no class: where the two readings of its "["
		// give different answers, none is demanded
		alt := ref.Affixes(alts, prefix, s)
		same := len(alt) == len(aff)
		if same && len(aff) > 0 {
			same = alt[0] == aff[0] && alt[len(alt)-1] == aff[len(aff)-1]
		}
		if !same {
			return c12Unmodelled, false, nil
		}
	}
	if len(aff) == 0 {
		if gerr != pattern.NoMatch {
			return c12Checked, wild, fmt.Errorf("Match(%q, %s, %q): want NoMatch, got %q, %v", c.Patterns, modeName(c.Mode), c.Subject, got, gerr)
		}
		return c12Checked, wild, nil
	}
	if gerr != nil {
		return c12Checked, wild, fmt.Errorf("Match(%q, %s, %q): want %q, got error %v", c.Patterns, modeName(c.Mode), c.Subject, cut(aff[0]), gerr)
	}
	// one pattern or several ("several patterns match exactly when one of
	// them does"): the shortest / longest affix any of them matches
	want := cut(aff[len(aff)-1])
	if smallest {
		want = cut(aff[0])
	}
	if got != want {
		return c12Checked, wild, fmt.Errorf("Match(%q, %s, %q): want %q, got %q", c.Patterns, modeName(c.Mode), c.Subject, want, got)
	}
	return c12Checked, wild, nil
}

// c12PUA maps every byte that is not valid UTF-8 to a private-use character
// of its own (and back), so that the rune-based reference matcher treats it
// as the distinct character it is.
func c12PUA(s string) string {
	var b strings.Builder
	for s != "" {
		r, w := utf8.DecodeRuneInString(s)
		if r == utf8.RuneError && w == 1 {
			b.WriteRune(0xE000 + rune(s[0]))
		} else {
			b.WriteString(s[:w])
		}
		s = s[w:]
	}
	return b.String()
}

func c12UnPUA(s string) string {
	var b strings.Builder
	for _, r := range s {
		if r >= 0xE000 && r < 0xE100 {
			b.WriteByte(byte(r - 0xE000))
		} else {
			b.WriteRune(r)
		}
	}
	return b.String()
}

// checkC12Bytes: a pattern with a byte that is not valid UTF-8. An error is
// a fine answer (go.sh's: such a pattern is malformed); any other answer has
// to be the right one when every such byte is a character of its own.
func checkC12Bytes(c c12Case) (errored bool, err error) {
	var got string
	var gerr error
	if e := guard(func() error {
		got, gerr = pattern.Match(c.Patterns, pattern.Mode(c.Mode), c.Subject)
		return nil
	}); e != nil {
		return false, fmt.Errorf("Match(%q, %s, %q) %v", c.Patterns, modeName(c.Mode), c.Subject, e)
	}
	if gerr != nil && gerr != pattern.NoMatch {
		return true, nil
	}
	var pats []*ref.Pattern
	for _, p := range c.Patterns {
		pt, perr := ref.ParsePattern(c12PUA(p))
		if perr != nil {
			return false, nil // malformed or not modelled for other reasons: nothing to compare
		}
		pats = append(pats, pt)
	}
	s := []rune(c12PUA(c.Subject))
	mode := pattern.Mode(c.Mode)
	prefix := mode&pattern.Prefix != 0
	aff := ref.Affixes(pats, prefix, s)
	if len(aff) == 0 {
		if gerr != pattern.NoMatch {
			return false, fmt.Errorf("Match(%q, %s, %q): the pattern holds an ill-formed byte; got %q, but it matches nothing when that byte is a character of its own (an error would do as well)", c.Patterns, modeName(c.Mode), c.Subject, got)
		}
		return false, nil
	}
	k := aff[len(aff)-1]
	if mode&pattern.Smallest != 0 && mode&pattern.Largest == 0 {
		k = aff[0]
	}
	want := c12UnPUA(string(s[:k]))
	if !prefix {
		want = c12UnPUA(string(s[len(s)-k:]))
	}
	if gerr == pattern.NoMatch || got != want {
		return false, fmt.Errorf("Match(%q, %s, %q): the pattern holds an ill-formed byte; got %q, %v, want %q (or an error)", c.Patterns, modeName(c.Mode), c.Subject, got, gerr, want)
	}
	return false, nil
}

// c12Neighbours returns calls whose arguments would collide with c's under
// a careless cache key (the patterns joined by some separator, or split at
// one): run directly before and after c they show state that leaks from one
// call into the next.
func c12Neighbours(c c12Case) []c12Case {
	var out []c12Case
	if len(c.Patterns) > 1 {
		for _, sep := range []string{"\x00", "|", " ", ","} {
			out = append(out, c12Case{Patterns: []string{strings.Join(c.Patterns, sep)}, Mode: c.Mode, Subject: c.Subject})
		}
		out = append(out, c12Case{Patterns: []string{fmt.Sprint(c.Patterns)}, Mode: c.Mode, Subject: c.Subject})
	} else if len(c.Patterns) == 1 {
		for _, sep := range []string{"\x00", "|", " "} {
			if parts := strings.Split(c.Patterns[0], sep); len(parts) > 1 && len(parts) < 5 {
				out = append(out, c12Case{Patterns: parts, Mode: c.Mode, Subject: c.Subject})
			}
		}
	}
	return out
}

// c12History checks c between its neighbours.
func c12History(c c12Case) error {
	nb := c12Neighbours(c)
	for _, x := range nb {
		if _, _, err := checkC12(x); err != nil {
			return err
		}
	}
	if _, _, err := checkC12(c); err != nil {
		return fmt.Errorf("%v\n(directly after the calls %+v)", err, nb)
	}
	for _, x := range nb {
		if _, _, err := checkC12(x); err != nil {
			return fmt.Errorf("%v\n(directly after the call %+v)", err, c)
		}
	}
	return nil
}

type c12Seq struct {
	Calls []c12Case `json:"calls"`
}

func init() {
	reg("C12", "history", func(h c12Seq) error {
		for i, c := range h.Calls {
			if _, _, err := checkC12(c); err != nil {
				return fmt.Errorf("call %d of the history: %v", i+1, err)
			}
		}
		return nil
	})
	reg("C12", "bytes", func(c c12Case) error {
		_, err := checkC12Bytes(c)
		return err
	})
	reg("C12", "match", func(c c12Case) error {
		_, _, err := checkC12(c)
		return err
	})
}

var c12Modes = []uint{
	uint(pattern.Prefix | pattern.Smallest),
	uint(pattern.Prefix | pattern.Largest),
	uint(pattern.Suffix | pattern.Smallest),
	uint(pattern.Suffix | pattern.Largest),
}

// words enumerates all strings of exactly n symbols over alpha.
func words(alpha []string, n int, fn func(string)) {
	idx := make([]int, n)
	var b strings.Builder
	for {
		b.Reset()
		for _, i := range idx {
			b.WriteString(alpha[i])
		}
		fn(b.String())
		k := n - 1
		for k >= 0 {
			idx[k]++
			if idx[k] < len(alpha) {
				break
			}
			idx[k] = 0
			k--
		}
		if k < 0 {
			return
		}
	}
}

func wordsUpTo(alpha []string, n int) []string {
	var out []string
	for k := 0; k <= n; k++ {
		words(alpha, k, func(s string) { out = append(out, s) })
	}
	return out
}

var (
	c12PatAlpha  = []string{"a", "b", "*", "?", "[", "]", "!", "^", "-", `\`, ".", "\n"}
	c12SubjAlpha = []string{"a", "b", "-", "]", "[", ".", "\n"}
	// subjects that hold the pattern characters themselves, for the patterns that escape them
	c12SubjAlpha2 = []string{"a", "*", `\`, "?", "b"}
)

func TestC12(t *testing.T) {
	st := newStats("C12")
	defer st.Write()
	sh, nsh := shard()

	// (a) exhaustive enumeration
	type space struct{ pn, sn int }
	spaces := []space{{4, 3}}
	if thorough() {
		spaces = []space{{5, 3}, {4, 4}}
	}
	for _, sp := range spaces {
		subjects := wordsUpTo(c12SubjAlpha, sp.sn)
		pi := 0
		for n := 0; n <= sp.pn; n++ {
			words(c12PatAlpha, n, func(p string) {
				pi++
				if pi%nsh != sh {
					return
				}
				var nt, unm, mal int64
				for _, s := range subjects {
					for _, m := range c12Modes {
						c := c12Case{Patterns: []string{p}, Mode: m, Subject: s}
						v, wild, err := checkC12(c)
						if err != nil {
							fail(t, "C12", "match", c, "%v", err)
						}
						switch v {
						case c12Unmodelled:
							unm++
						case c12Malformed:
							mal++
						default:
							if wild && s != "" {
								nt++
							}
						}
					}
				}
				st.EvalN(int64(len(subjects)*len(c12Modes)), nt)
				st.ClassN("unmodelled_no_panic_only", unm)
				st.ClassN("malformed_pattern", mal)
				if pi%997 == 0 {
					st.Sample(c12Case{Patterns: []string{p}, Mode: c12Modes[pi%4], Subject: subjects[pi%len(subjects)]})
				}
			})
		}
		st.Note("exhaustive: patterns of <= %d symbols over %q x subjects of <= %d symbols over %q x 4 modes (sharded by pattern index)", sp.pn, c12PatAlpha, sp.sn, c12SubjAlpha)
	}
	// the same patterns on subjects made of pattern characters
	{
		subjects := wordsUpTo(c12SubjAlpha2, 3)
		pi := 0
		for n := 0; n <= 4; n++ {
			words(c12PatAlpha, n, func(p string) {
				pi++
				if pi%nsh != sh || !strings.ContainsAny(p, `\*?`) {
					return
				}
				var nt int64
				for _, s := range subjects {
					for _, m := range c12Modes {
						c := c12Case{Patterns: []string{p}, Mode: m, Subject: s}
						v, wild, err := checkC12(c)
						if err != nil {
							fail(t, "C12", "match", c, "%v", err)
						}
						if v == c12Checked && wild && s != "" {
							nt++
						}
					}
				}
				st.EvalN(int64(len(subjects)*len(c12Modes)), nt)
			})
		}
		st.Note("exhaustive: the patterns of <= 4 symbols that hold a backslash or a wildcard x subjects of <= 3 symbols over %q x 4 modes", c12SubjAlpha2)
	}
	// letters that mean something to a regular-expression engine when they
	// stand behind a backslash (\Q \E quoting, \d \b \A classes and anchors,
	// \1): escaped they are the letters, behind an escaped backslash too
	{
		palpha := []string{`\`, "E", "Q", "d", "b", "1", "*"}
		subjects := wordsUpTo([]string{`\`, "E", "d", "1", "b"}, 3)
		pi := 0
		for n := 1; n <= 4; n++ {
			words(palpha, n, func(p string) {
				pi++
				if pi%nsh != sh || !strings.Contains(p, `\`) {
					return
				}
				var nt int64
				for _, s := range subjects {
					for _, m := range c12Modes {
						c := c12Case{Patterns: []string{p}, Mode: m, Subject: s}
						v, _, err := checkC12(c)
						if err != nil {
							fail(t, "C12", "match", c, "%v", err)
						}
						if v == c12Checked && s != "" {
							nt++
						}
					}
				}
				st.EvalN(int64(len(subjects)*len(c12Modes)), nt)
			})
		}
		st.Note("exhaustive: the patterns of <= 4 symbols over %q that hold a backslash x subjects of <= 3 symbols over {\\ E d 1 b} x 4 modes", palpha)
	}
	// subjects around buffer-sized lengths with a multi-byte character at the edge
	if sh == 2%nsh {
		var k int64
		for _, size := range []int{64, 128, 256, 512} {
			for d := -3; d <= 3; d++ {
				for pos := 0; pos <= 4; pos++ {
					n := size + d - pos - 2
					subj := strings.Repeat("b", pos) + "é" + strings.Repeat("a", n)
					rsubj := strings.Repeat("a", n) + "é" + strings.Repeat("b", pos)
					for _, p := range []string{"[!a]*", "?*", "*", "é*", "b*", "[!b]*", "*é*", "*[!a]", "*?", "*é", "a*é?"} {
						for _, m := range c12Modes {
							for _, sj := range []string{subj, rsubj} {
								c := c12Case{Patterns: []string{p}, Mode: m, Subject: sj}
								if _, _, err := checkC12(c); err != nil {
									fail(t, "C12", "match", c, "%v", err)
								}
								k++
							}
						}
					}
				}
			}
		}
		st.EvalN(k, k)
		st.ClassN("subjects_of_buffer_sized_lengths", k)
		st.Note("%d cases on subjects of 64, 128, 256 and 512 bytes +-3 with a two-byte character within the first (last) five positions", k)
	}
	st.Exhaustive = true

	// (a') unusual characters: U+FFFD (which decoders also use as their error
	// value), a character beyond the BMP, a combining mark, NUL; and pairs of patterns
	{
		palpha := []string{"a", "*", "?", `\`, "\uFFFD", "\U0001F600", "e\u0301", "\x00"}
		salpha := []string{"a", "\uFFFD", "\U0001F600", "\u0301", "\x00"}
		subjects := wordsUpTo(salpha, 3)
		pats := wordsUpTo(palpha, 3)
		pi := 0
		for _, p := range pats {
			pi++
			if pi%nsh != sh {
				continue
			}
			var nt int64
			for _, s := range subjects {
				for _, m := range c12Modes {
					c := c12Case{Patterns: []string{p}, Mode: m, Subject: s}
					v, wild, err := checkC12(c)
					if err != nil {
						fail(t, "C12", "match", c, "%v", err)
					}
					if v == c12Checked && wild && s != "" {
						nt++
					}
				}
			}
			st.EvalN(int64(len(subjects)*len(c12Modes)), nt)
		}
		two := wordsUpTo([]string{"a", "b", "*", "?", "[", "]"}, 2)
		subj2 := wordsUpTo([]string{"a", "b", "|", "]"}, 3)
		pi = 0
		for _, p1 := range two {
			for _, p2 := range two {
				pi++
				if pi%nsh != sh {
					continue
				}
				var nt int64
				for _, s := range subj2 {
					for _, m := range c12Modes {
						c := c12Case{Patterns: []string{p1, p2}, Mode: m, Subject: s}
						v, wild, err := checkC12(c)
						if err != nil {
							fail(t, "C12", "match", c, "%v", err)
						}
						if err := c12History(c); err != nil {
							fail(t, "C12", "history", c12Seq{Calls: append(append(c12Neighbours(c), c), c12Neighbours(c)...)}, "%v", err)
						}
						if v == c12Checked && wild && s != "" {
							nt++
						}
					}
				}
				st.EvalN(int64(len(subj2)*len(c12Modes)), nt)
				st.ClassN("exhaustive_pattern_pairs", int64(len(subj2)*len(c12Modes)))
			}
		}
		st.Note("exhaustive: patterns of <= 3 symbols over %q x subjects of <= 3 symbols over %q x 4 modes; all pairs of patterns of <= 2 symbols over {a b * ? [ ]} x subjects of <= 3 symbols over {a b | ]} x 4 modes", palpha, salpha)
	}

	// (a‴) bracket expressions around "[:" — classes, things that only look
	// like one, and the regular expression syntax a translation might leak
	{
		palpha := []string{"[", "[:", ":]", "]", `\:`, ":", "alpha", "^", "a", "*", "-", "[=", "=]", "="}
		salpha := []string{"a", "l", "[", ":", "]", "s", "(", "^", "1", "-", "*", "="}
		pn := 3
		if thorough() {
			pn = 4
		}
		subjects := wordsUpTo(salpha, 2)
		pi := 0
		var total, unm, mal int64
		for _, body := range wordsUpTo(palpha, pn) {
			for _, p := range []string{"[" + body + "]", body} {
				pi++
				if pi%nsh != sh {
					continue
				}
				var nt int64
				for _, s := range subjects {
					for _, m := range c12Modes {
						c := c12Case{Patterns: []string{p}, Mode: m, Subject: s}
						v, wild, err := checkC12(c)
						if err != nil {
							fail(t, "C12", "match", c, "%v", err)
						}
						switch v {
						case c12Unmodelled:
							unm++
						case c12Malformed:
							mal++
						default:
							if wild && s != "" {
								nt++
							}
						}
					}
				}
				total += int64(len(subjects) * len(c12Modes))
				st.EvalN(int64(len(subjects)*len(c12Modes)), nt)
				if pi%499 == 0 {
					st.Sample(c12Case{Patterns: []string{p}, Mode: c12Modes[pi%4], Subject: subjects[pi%len(subjects)]})
				}
			}
		}
		// "[=" (and "[:") with the closing characters only behind the next "]"
		if sh == 0 {
			subj3 := append(wordsUpTo([]string{"a", "=", "[", "]", "x"}, 3), "=xyz=]", "[xyz=]", "=b]", "ab]", "a=]", "[a=]x", ":x:]", "[x:]")
			for _, p := range []string{"[[=]*=]", "[a[=]b=]", "[[=]=]", "[[=]a=]x", "[![=]*=]", "[[=]?=]", "[[:]*:]", "[a[:]b:]", "[[:]a:]x", "[[=]]*=]"} {
				for _, s := range subj3 {
					for _, m := range c12Modes {
						c := c12Case{Patterns: []string{p}, Mode: m, Subject: s}
						v, _, err := checkC12(c)
						if err != nil {
							fail(t, "C12", "match", c, "%v", err)
						}
						if v == c12Unmodelled {
							unm++
						}
						total++
					}
				}
			}
		}
		st.ClassN("bracket_class_lookalikes", total)
		st.ClassN("unmodelled_no_panic_only", unm)
		st.ClassN("malformed_pattern", mal)
		st.Note("exhaustive: \"[\"+body+\"]\" and body for bodies of <= %d tokens over %q x subjects of <= 2 symbols over %q x 4 modes", pn, palpha, salpha)
	}

	// (a⁗) the class table: every class x every ASCII character, plain and
	// negated; characters whose encoding ends in (or whose code point has the
	// low byte of) an ASCII character that is special somewhere; pairs of
	// patterns on subjects with multi-byte characters
	if sh == 0 {
		var total, nt int64
		run := func(c c12Case) {
			v, wild, err := checkC12(c)
			if err != nil {
				fail(t, "C12", "match", c, "%v", err)
			}
			total++
			if v == c12Checked && wild && c.Subject != "" {
				nt++
			}
		}
		for _, name := range []string{"alpha", "digit", "alnum", "upper", "lower", "space", "blank", "punct", "xdigit", "cntrl", "print", "graph"} {
			for ch := 0; ch < 128; ch++ {
				for _, p := range []string{"[[:" + name + ":]]", "[![:" + name + ":]]", "*[[:" + name + ":]]", "[^[:" + name + ":]x]"} {
					run(c12Case{Patterns: []string{p}, Mode: c12Modes[ch%4], Subject: string(rune(ch))})
					run(c12Case{Patterns: []string{p}, Mode: c12Modes[(ch+1)%4], Subject: "a " + string(rune(ch))})
				}
			}
		}
		st.ClassN("class_table_x_ascii", total)
		n0 := total
		for _, base := range []rune{0x100, 0x200, 0x4E00, 0x1F600, 0x80} {
			for _, m := range ".+()|{}^$*?[]\\-!:=#" {
				r := base&^0xff + m
				if base == 0x80 {
					r = 0x80 + m // two bytes, the second one is 0x80+m&0x3f ...
				}
				c := string(r)
				for _, p := range []string{c, "[" + c + "]", `\` + c, "*" + c, c + "?", "[!" + c + "]", "[a-" + c + "]"} {
					for _, subj := range []string{c, c + c, "a" + c, string(m), c + string(m)} {
						run(c12Case{Patterns: []string{p}, Mode: c12Modes[int(m)%4], Subject: subj})
					}
				}
			}
		}
		st.ClassN("characters_with_a_special_low_byte", total-n0)
		st.EvalN(total, nt)
		st.Note("%d cases: the twelve classes x all 128 ASCII characters (plain, negated, behind *, in a negated set); %d cases with characters whose code point has the low byte of . + ( ) | { } ^ $ * ? [ ] \\ - ! : = # (as literal, bracketed, escaped, range end)", n0, total-n0)
	}
	{
		pats := wordsUpTo([]string{"a", "é", "?", "*"}, 3)
		subjects := wordsUpTo([]string{"a", "é", "\U0001F600"}, 3)
		pi := 0
		for _, p1 := range pats {
			for _, p2 := range pats {
				pi++
				if pi%nsh != sh {
					continue
				}
				var nt int64
				for _, s := range subjects {
					for _, m := range c12Modes {
						c := c12Case{Patterns: []string{p1, p2}, Mode: m, Subject: s}
						v, wild, err := checkC12(c)
						if err != nil {
							fail(t, "C12", "match", c, "%v", err)
						}
						if v == c12Checked && wild && s != "" {
							nt++
						}
					}
				}
				st.EvalN(int64(len(subjects)*len(c12Modes)), nt)
				st.ClassN("exhaustive_pattern_pairs_multibyte", int64(len(subjects)*len(c12Modes)))
			}
		}
		st.Note("exhaustive: all pairs of patterns of <= 3 symbols over {a é ? *} x subjects of <= 3 symbols over {a é U+1F600} x 4 modes")
	}

	// (a⁗′) bytes that are not valid UTF-8 in the pattern: as a member of a
	// bracket expression, at the top level, escaped, as a range end
	if sh == 1%nsh {
		var n, errs int64
		for _, b := range []string{"\xff", "\xfe", "\xc3", "\x80"} {
			for _, p := range []string{"[" + b + "]", "[a" + b + "]", "[!" + b + "]", "[[:alpha:]" + b + "]", b, "a" + b, `\` + b, "[\\" + b + "]", "*" + b, "[" + b + "-" + b + "]", "?" + b + "*", "[" + b + "a]*"} {
				for _, subj := range []string{b, "\xfe", "\xff", "\uFFFD", "a", "a" + b, b + "a", "a\uFFFD", "\xfea", ""} {
					for _, m := range c12Modes {
						c := c12Case{Patterns: []string{p}, Mode: m, Subject: subj}
						errored, err := checkC12Bytes(c)
						if err != nil {
							fail(t, "C12", "bytes", c, "%v", err)
						}
						n++
						if errored {
							errs++
						}
					}
				}
			}
		}
		st.EvalN(n, n)
		st.ClassN("ill_formed_byte_in_pattern", n)
		st.ClassN("ill_formed_byte_in_pattern_answered_with_an_error", errs)
		st.Note("%d cases with a byte that is not valid UTF-8 in the pattern (bracket member, negated, next to a class, top level, escaped, range end) on subjects with the same byte, another such byte and U+FFFD: an error, or the answer that is right when every such byte is a character of its own", n)
	}

	// (a'') long patterns (regular expression engines limit repeat counts and program sizes)
	if sh == 0 {
		long := 0
		for _, atom := range []string{"?", "a", "[ab]", "\\a", "é", "??", "[!b]"} {
			for _, k := range []int{200, 1001, 1500} {
				p := strings.Repeat(atom, k)
				subj := strings.Repeat("a", k)
				switch atom {
				case "é":
					subj = strings.Repeat("é", k)
				case "??":
					subj = strings.Repeat("a", 2*k)
				}
				for _, m := range c12Modes {
					for _, sj := range []string{subj, subj + "b", "b" + subj, subj[:len(subj)/2]} {
						c := c12Case{Patterns: []string{p}, Mode: m, Subject: sj}
						if _, _, err := checkC12(c); err != nil {
							fail(t, "C12", "match", c, "%v", err)
						}
						long++
					}
				}
			}
		}
		st.EvalN(int64(long), int64(long))
		st.ClassN("long_patterns", int64(long))
		st.Note("%d cases with patterns of 200, 1001 and 1500 repeated atoms (?, a, [ab], \\a, é, ??, [!b])", long)
	}

	// (b) random longer patterns
	n := 40000
	if thorough() {
		n = 1000000
	}
	n /= nsh
	atom := rapid.OneOf(
		rapid.SampledFrom([]string{"a", "b", "c", "é", "日", "x", "0", "9", "A", "Z", " ", "\n", "\t", "\uFFFD", "\U0001F600", "\u0301", "\x00", "\r"}),
		rapid.SampledFrom([]string{"*", "?", "*", "?"}),
		rapid.SampledFrom([]string{".", "+", "(", ")", "|", "{", "}", "^", "$", "-", "!", "]", "#", "%", "~", "/", ",", ":", "=", "'", `"`}),
		rapid.SampledFrom([]string{`\*`, `\?`, `\[`, `\]`, `\\`, `\.`, `\a`, `\é`, `\-`, `\(`, `\|`, `\$`, `\^`, `\+`, `\{`, "\\\uFFFD", "\\\U0001F600"}),
		rapid.SampledFrom([]string{"{2}", "{1,}", "a{2}", "o{2,3}", "{,2}", "(?i)", "\\d", "\\pL", "a|b", "a+", "(a)", "^a", "a$", "\\Qa\\E", "[[:alpha:]]{2}"}),
		rapid.Custom(func(t *rapid.T) string {
			var b strings.Builder
			b.WriteString("[")
			if rapid.IntRange(0, 3).Draw(t, "neg") == 0 {
				b.WriteString(rapid.SampledFrom([]string{"!", "^"}).Draw(t, "negc"))
			}
			if rapid.IntRange(0, 5).Draw(t, "rb") == 0 {
				b.WriteString("]")
			}
			k := rapid.IntRange(1, 4).Draw(t, "items")
			for i := 0; i < k; i++ {
				b.WriteString(rapid.OneOf(
					rapid.SampledFrom([]string{"a", "b", "c", "é", "x", "0", "9", "Z", ".", "*", "?", "(", "|", "$", "+", "{", " ", "\n", "!", "^"}),
					rapid.SampledFrom([]string{"a-c", "0-9", "A-Z", "a-é", "x-z", "!-/", "b-b", " -~"}),
					rapid.SampledFrom([]string{"[:alpha:]", "[:digit:]", "[:alnum:]", "[:upper:]", "[:lower:]", "[:space:]", "[:blank:]", "[:punct:]", "[:xdigit:]", "[:cntrl:]", "[:print:]", "[:graph:]"}),
					rapid.SampledFrom([]string{`\]`, `\\`, `\-`, `\[`, `\!`, `\^`, `\a`, `\.`, `\E`, `\Q`, `\d`}),
					rapid.SampledFrom([]string{"-", "[", "c-a", "[:foo:]", "[.a.]", "[=a=]"}),
					rapid.SampledFrom([]string{"[:", ":]", ":", `\:`, "[:^alpha:]", "[:alpha", "[:a", `[\:alpha:]`, "[:*", "[:?", `[:\-`, "[:ALPHA:]", "[: alpha:]", "[:alpha :]", "[::]"}),
				).Draw(t, "item"))
			}
			if rapid.IntRange(0, 15).Draw(t, "open") != 0 {
				b.WriteString("]")
			}
			return b.String()
		}),
	)
	patGen := rapid.Custom(func(t *rapid.T) string {
		return strings.Join(rapid.SliceOfN(atom, 0, 7).Draw(t, "atoms"), "")
	})
	subjGen := rapid.Custom(func(t *rapid.T) string {
		return strings.Join(rapid.SliceOfN(rapid.SampledFrom([]string{"a", "b", "c", "é", "日", "\uFFFD", "\U0001F600", "\u0301", "\x00", "x", "y", "0", "9", "A", "Z", " ", "\n", "\t", ".", "+", "(", ")", "|", "{", "}", "^", "$", "-", "!", "]", "[", "*", "?", `\`, "#", "~", "/", ":", "s", "l", "p", "h", "1"}), 0, 8).Draw(t, "subj"), "")
	})
	modeGen := rapid.SampledFrom(append(append([]uint{}, c12Modes...), uint(pattern.Prefix), uint(pattern.Suffix), uint(pattern.Prefix|pattern.Smallest|pattern.Largest), uint(pattern.Suffix|pattern.Smallest|pattern.Largest), uint(pattern.Prefix|pattern.Suffix)))
	prop := func(rt *rapid.T) {
		np := rapid.SampledFrom([]int{1, 1, 1, 2, 3}).Draw(rt, "npat")
		c := c12Case{Mode: modeGen.Draw(rt, "mode"), Subject: subjGen.Draw(rt, "subject")}
		for i := 0; i < np; i++ {
			c.Patterns = append(c.Patterns, patGen.Draw(rt, "pattern"))
		}
		// classes are only compared on ASCII subjects
		if strings.Contains(strings.Join(c.Patterns, ""), "[:") && !isASCII(c.Subject) {
			c.Subject = asciiOnly(c.Subject)
		}
		v, wild, err := checkC12(c)
		if err != nil {
			fail(rt, "C12", "match", c, "%v", err)
		}
		if nb := c12Neighbours(c); len(nb) > 0 {
			if err := c12History(c); err != nil {
				fail(rt, "C12", "history", c12Seq{Calls: append(append(nb, c), nb...)}, "%v", err)
			}
			st.Class("calls_between_colliding_neighbours")
		}
		st.Eval(v == c12Checked && wild && c.Subject != "", strings.Join(c.Patterns, "\x00"), fmt.Sprint(c.Mode), c.Subject)
		switch v {
		case c12Unmodelled:
			st.Class("unmodelled_no_panic_only")
		case c12Malformed:
			st.Class("malformed_pattern")
		}
		if len(c.Patterns) > 1 {
			st.Class("random_multi_pattern")
		}
		if !isASCII(c.Subject) {
			st.Class("random_multibyte_subject")
		}
		st.Class("random_cases")
		st.Sample(c)
	}
	runRapid(t, n, prop)
}

func isASCII(s string) bool {
	for i := 0; i < len(s); i++ {
		if s[i] >= utf8.RuneSelf {
			return false
		}
	}
	return true
}

func asciiOnly(s string) string {
	var b strings.Builder
	for _, r := range s {
		if r < utf8.RuneSelf {
			b.WriteRune(r)
		}
	}
	return b.String()
}
