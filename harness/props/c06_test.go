//go:build verif

package props

import (
	"encoding/json"
	"fmt"
	"os"
	"runtime"
	"sort"
	"strings"
	"sync"
	"testing"
	"time"

	"github.com/hattya/go.sh/ast"
	"github.com/hattya/go.sh/interp"
	"github.com/hattya/go.sh/parser"
	"github.com/hattya/go.sh/pattern"
	"github.com/hattya/go.sh/printer"
	"pgregory.net/rapid"

	"verif/gen"
	"verif/oracle"
	"verif/ref"
	"verif/sched"
)

// C06 — results are schedule-independent; nothing keeps running after return.

type c06Case struct {
	Kind      string            `json:"kind"` // parse | eval
	Src       string            `json:"src"`
	Store     map[string]string `json:"store,omitempty"` // eval: initial variables
	Schedules [][]int           `json:"schedules"`       // the schedules to run and compare (choice indices)
	// Strict: compare every component (error value, amount consumed,
	// liveness at return) even though some schedule returns an error. Known
	// finding witnesses are recorded this way.
	Strict bool `json:"strict,omitempty"`
}

// c06Outcome is what one controlled run produced.
type c06Outcome struct {
	Result   string // commands + comments (parse) or value + store (eval)
	Err      string
	Consumed int
	After    int // consumed once every goroutine had exited
	Alive    []string
	Drained  bool
	Deadlock bool
	Sizes    []int
	Late     []string // lexers that handed a token over after having been cancelled
	States   []string // the scheduler's view of every goroutine when a deadlock was declared
}

// c06Run runs the input under one schedule. A deadlock verdict is only
// believed when the same schedule deadlocks three times in a row.
func c06Run(c c06Case, choices []int, trace bool) (c06Outcome, []string) {
	o, tr := c06RunOnce(c, choices, trace)
	for i := 0; i < 2 && (o.Deadlock || !o.Drained); i++ {
		o2, tr2 := c06RunOnce(c, choices, trace)
		if !o2.Deadlock && o2.Drained {
			return o2, tr2
		}
	}
	if o.Deadlock || !o.Drained {
		// on a busy machine six seconds prove nothing: once more with two minutes
		sched.Patience(2*time.Minute, func() {
			if o2, tr2 := c06RunOnce(c, choices, trace); !o2.Deadlock && o2.Drained {
				o, tr = o2, tr2
			}
		})
	}
	return o, tr
}

func c06RunOnce(c c06Case, choices []int, trace bool) (c06Outcome, []string) {
	var o c06Outcome
	var res sched.Result
	switch c.Kind {
	case "eval":
		env := interp.NewExecEnv("sh")
		for _, v := range []string{"x", "y", "z"} {
			env.Unset(v)
		}
		for k, v := range c.Store {
			env.Set(k, v)
		}
		res = sched.Run(choices, trace, func() {
			n, err := env.Eval(c.Src)
			o.Result = fmt.Sprint(n)
			if err != nil {
				o.Err = err.Error()
			}
		})
		for _, v := range []string{"x", "y", "z"} {
			val, set := env.Get(v)
			o.Result += fmt.Sprintf(" %s=%q/%v", v, val.Value, set)
		}
	default:
		rd := strings.NewReader(c.Src)
		res = sched.Run(choices, trace, func() {
			cmds, comments, err := parser.ParseCommands(nil, "c06", rd)
			o.Result = oracle.Snapshot(cmds) + " # " + oracle.Snapshot(comments)
			if err != nil {
				o.Err = err.Error()
			}
			o.Consumed = len(c.Src) - rd.Len()
		})
		o.After = len(c.Src) - rd.Len()
	}
	o.Alive, o.Drained, o.Deadlock, o.Sizes, o.Late = res.AliveAtExit, res.Drained, res.Deadlock, res.Choices, res.LateHandOver
	for _, l := range res.Trace {
		if strings.HasPrefix(l, "STATE") {
			o.States = append(o.States, l)
		}
	}
	return o, res.Trace
}

// c06Compare judges a set of outcomes of one input. errPath: some schedule
// returned an error (the known finding narrows the oracle there).
func c06Compare(c c06Case, outs []c06Outcome, scheds [][]int) error {
	anyErr := false
	for _, o := range outs {
		anyErr = anyErr || o.Err != ""
	}
	relaxed := anyErr && excluded[c06Exclusion(c.Kind)] && !c.Strict
	// The open finding (no join of the top-level lexer) lets a lexer run at
	// most to its next hand-over after its parser has failed: there it finds
	// the cancellation and stops. A run in which a cancelled lexer does hand a
	// token over is outside that finding: error and amount consumed are then
	// compared across the schedules although the call fails.
	late := -1
	for i, o := range outs {
		if len(o.Late) > 0 && late < 0 {
			late = i
		}
	}
	if c.Kind != "parse" {
		// the arithmetic evaluator reports its own faults through the lexer's
		// error slot and yyParse goes on asking for tokens afterwards: hand-overs
		// after the cancellation are part of its design
		late = -1
	}
	if relaxed && late >= 0 {
		for i, o := range outs {
			if o.Deadlock || !o.Drained {
				continue
			}
			a := outs[late]
			if o.Err != a.Err || o.Consumed != a.Consumed || o.Result != a.Result {
				return fmt.Errorf("%s %q: under schedule %v the cancelled lexer %v still hands a token over and lexes on (error %q, %d bytes consumed); under schedule %v the call gives error %q, %d bytes consumed",
					c.Kind, c.Src, scheds[late], a.Late, a.Err, a.Consumed, scheds[i], o.Err, o.Consumed)
			}
		}
	}
	for i, o := range outs {
		where := fmt.Sprintf("%s %q under schedule %v", c.Kind, c.Src, scheds[i])
		if o.Deadlock {
			return fmt.Errorf("%s: no goroutine can run and the call has not returned (deadlock)\n%s", where, strings.Join(o.States, "\n"))
		}
		if !o.Drained {
			return fmt.Errorf("%s: a goroutine started by the call never exits (alive at return: %v)", where, o.Alive)
		}
		if anyErr && o.Err == "" {
			return fmt.Errorf("%s: returns no error, although it does under schedule %v", where, scheds[firstErr(outs)])
		}
		if relaxed {
			continue
		}
		if len(o.Alive) > 0 {
			return fmt.Errorf("%s: goroutines still running when the call returns: %v", where, o.Alive)
		}
		if c.Kind == "parse" && o.After != o.Consumed {
			return fmt.Errorf("%s: the source reader was at offset %d at return and at %d afterwards: something kept reading", where, o.Consumed, o.After)
		}
	}
	for i := 1; i < len(outs); i++ {
		a, b := outs[0], outs[i]
		where := fmt.Sprintf("%s %q: schedules %v and %v", c.Kind, c.Src, scheds[0], scheds[i])
		if !relaxed || c.Kind == "parse" {
			if a.Result != b.Result && !(relaxed) {
				return fmt.Errorf("%s give different results\ndiff: %s", where, firstDiff(a.Result, b.Result))
			}
		}
		if relaxed {
			continue
		}
		if a.Err != b.Err {
			return fmt.Errorf("%s give different errors: %q vs %q", where, a.Err, b.Err)
		}
		if a.Consumed != b.Consumed {
			return fmt.Errorf("%s consume %d vs %d bytes of the source", where, a.Consumed, b.Consumed)
		}
	}
	return nil
}

// c06Exclusion names the known finding that narrows the oracle on error
// paths: one for the parser, one for the arithmetic evaluator.
func c06Exclusion(kind string) string {
	if kind == "eval" {
		return "no_join_on_error_paths_eval"
	}
	return "no_join_on_error_paths"
}

func firstErr(outs []c06Outcome) int {
	for i, o := range outs {
		if o.Err != "" {
			return i
		}
	}
	return 0
}

func checkC06(c c06Case) error {
	var outs []c06Outcome
	for _, s := range c.Schedules {
		o, _ := c06Run(c, s, false)
		outs = append(outs, o)
	}
	return c06Compare(c, outs, c.Schedules)
}

func init() {
	reg("C06", "schedules", checkC06)
	// a race report names the input that was running; it can only be
	// reproduced in the -race binary (go test -race -tags verif -run TestC06Race)
	reg("C06", "hang", func(c c06Case) error {
		// a hang under free scheduling: try again many times
		sched.SetPerturb(12345)
		defer sched.SetPerturb(0)
		for i := 0; i < 20000; i++ {
			ok := true
			if c.Kind == "eval" {
				env := interp.NewExecEnv("sh")
				ok = c06Within(20*time.Second, func() { env.Eval(c.Src) })
			} else {
				ok = c06Within(20*time.Second, func() { parser.ParseCommands(nil, "c06", c.Src) })
			}
			if !ok {
				return fmt.Errorf("%s %q did not return within 20s (attempt %d under perturbed free scheduling)", c.Kind, c.Src, i+1)
			}
		}
		return nil
	})
	reg("C06", "concurrent", checkC06Concurrent)
	reg("C06", "repeat", func(c c06Case) error {
		// the result of a call depends on nothing but its arguments: a
		// thousand free runs agree with the first
		var first string
		for i := 0; i < 1000; i++ {
			cmds, comments, err := parser.ParseCommands(nil, "c06", c.Src)
			got := fmt.Sprintf("%s | %s | %v", strings.Join(oracle.Commands(cmds, oracle.Exact), " ;; "), strings.Join(oracle.Comments(comments), " "), err)
			if i == 0 {
				first = got
			} else if got != first {
				return fmt.Errorf("ParseCommands(%q): repetition %d returns\n  %s\nthe first call returned\n  %s", c.Src, i, got, first)
			}
		}
		return nil
	})
	reg("C06", "race", func(c c06Case) error {
		return fmt.Errorf("data race reported by the race detector while this input ran (%s %q); reproduce with the -race binary", c.Kind, c.Src)
	})
}

// c06Damaged draws a program with one token deleted or inserted and maybe
// an unterminated tail: a parser error, often followed by a lexer error.
func c06Damaged(rt *rapid.T, maxDepth, maxBudget int) string {
	o := genOpts()
	o.NoHeredoc = rapid.Bool().Draw(rt, "nohd")
	o.MaxDepth = rapid.IntRange(1, maxDepth).Draw(rt, "maxdepth")
	o.Budget = rapid.IntRange(1, maxBudget).Draw(rt, "budget")
	p := gen.Complete(gen.RapidChooser{T: rt}, o)
	us := unitsOf(p.Stream)
	i := rapid.IntRange(0, len(us)).Draw(rt, "at")
	var m []c03Unit
	if i < len(us) && rapid.Bool().Draw(rt, "delete") {
		m = append(append(m, us[:i]...), us[i+1:]...)
	} else {
		ins := c03Insert[rapid.IntRange(0, len(c03Insert)-1).Draw(rt, "insert")]
		m = append(append(append(m, us[:i]...), alphabetUnit(ins)), us[i:]...)
	}
	src, _, _ := renderUnits(m)
	return src + rapid.SampledFrom([]string{"", "", " 'q", " $(", " ${x", " `a", " \"b"}).Draw(rt, "tail")
}

// c06Explore runs the input under all schedules (up to limit) and returns a
// minimal case that shows a violation, if any.
func c06Explore(c c06Case, limit int, extra [][]int) (runs int, exhausted bool, bad *c06Case, err error) {
	var outs []c06Outcome
	var scheds [][]int
	stop := false
	one := func(choices []int) []int {
		if stop {
			return nil // a deadlock was found: no point in exploring further
		}
		o, _ := c06Run(c, choices, false)
		if o.Deadlock || !o.Drained {
			stop = true
		}
		outs = append(outs, o)
		scheds = append(scheds, append([]int{}, choices...))
		return o.Sizes
	}
	runs, exhausted = sched.Enumerate(limit, one)
	for _, e := range extra {
		one(e)
		runs++
	}
	if e := c06Compare(c, outs, scheds); e != nil {
		// reduce to the (at most two) schedules that show it
		for i := range outs {
			cc := c
			cc.Schedules = [][]int{scheds[i]}
			if e1 := c06Compare(cc, outs[i:i+1], scheds[i:i+1]); e1 != nil {
				return runs, exhausted, &cc, e1
			}
		}
		for j := 0; j < len(outs) && j < 400; j++ {
			for i := j + 1; i < len(outs); i++ {
				cc := c
				cc.Schedules = [][]int{scheds[j], scheds[i]}
				if e2 := c06Compare(cc, []c06Outcome{outs[j], outs[i]}, cc.Schedules); e2 != nil {
					return runs, exhausted, &cc, e2
				}
			}
		}
		cc := c
		cc.Schedules = scheds
		return runs, exhausted, &cc, e
	}
	return runs, exhausted, nil, nil
}

// TestC06Probe is a development aid: VERIF_C06_PROBE='<kind>|<src>' prints
// the distinct outcomes over all schedules.
func TestC06Probe(t *testing.T) {
	p := os.Getenv("VERIF_C06_PROBE")
	if p == "" {
		t.Skip()
	}
	kind, src, _ := strings.Cut(p, "|")
	c := c06Case{Kind: kind, Src: src}
	type group struct {
		n     int
		sched []int
	}
	groups := map[string]*group{}
	runs, exhausted := sched.Enumerate(envInt("VERIF_C06_LIMIT", 3000), func(choices []int) []int {
		o, _ := c06Run(c, choices, false)
		key := fmt.Sprintf("err=%q consumed=%d after=%d alive=%v drained=%v deadlock=%v result#%x", o.Err, o.Consumed, o.After, o.Alive, o.Drained, o.Deadlock, hash64(o.Result))
		if groups[key] == nil {
			groups[key] = &group{sched: append([]int{}, choices...)}
		}
		groups[key].n++
		return o.Sizes
	})
	fmt.Printf("PROBE %q: %d schedules (exhausted=%v), %d distinct outcomes\n", src, runs, exhausted, len(groups))
	var keys []string
	for k := range groups {
		keys = append(keys, k)
	}
	sort.Strings(keys)
	for _, k := range keys {
		fmt.Printf("  %5d x %s  e.g. schedule %v\n", groups[k].n, k, groups[k].sched)
	}
}

var c06EvalExprs = []string{"1+2", "x=5", "x = y + 1", "x++ + y", "(1+2)*3", "1/0", "08 + 1", "x = 08", "1 +", "x += 1, y", "1 2", "a b c d", "y = 1/0", "08 09", "1 @ 2 3", "x = 1 ? 2 : 3", "x += y = 3", "-x", "(1", "1))", "x ==", "7 % 0 + 08",
	// a syntax error with an illegal character directly behind the failing token: both sides report at the same time
	"1 1 @", "1 ) $", "x = * #", "1 2 3 @", "( ) @", "1 + + `"}

func TestC06(t *testing.T) {
	st := newStats("C06")
	defer st.Write()
	_, nsh := shard()
	limit := 250
	if thorough() {
		limit = 4000
	}
	n := 1000
	if thorough() {
		n = 30000
	}
	n /= nsh

	explore := func(rt fataler, c c06Case, extra [][]int, rapidCase bool) {
		jr.begin("C06", "schedules", c)
		runs, exhausted, bad, err := c06Explore(c, limit, extra)
		jr.end()
		if err != nil {
			fail(rt, "C06", "schedules", *bad, "%v", err)
		}
		st.mu.Lock()
		st.Evaluations += int64(runs) - 1
		st.mu.Unlock()
		st.Eval(runs >= 2, c.Kind, c.Src, fmt.Sprint(c.Store))
		if exhausted {
			st.Class("inputs_with_all_schedules_explored")
		} else {
			st.Class("inputs_with_schedule_space_truncated")
		}
		st.ClassN("controlled_runs", int64(runs))
		st.Class("kind_" + c.Kind)
	}

	// fixed inputs covering the classes of the quantifier
	if sh, _ := shard(); sh == 0 {
		for _, src := range []string{"a b", "if a; then b; fi", "echo $(a; b) c", "cat <<E\nx\nE\n", "a <<A <<B\n1\nA\n2\nB\n", "x `a | b` $((1 + 2))", "a | | b c", "a | | $(", "cat <<E ; ; \n", "a | | 'q", ") 'x", "a $(b", "{ a; } }", "for i in a; do b; done", "case x in a) b;; esac", "a # c\n", "a && \nb\n",
			// an error inside a substitution, with more input behind it
			"echo $(a ; ; -b c d e f) g", "x `a | | b c d` e f", "echo $(a ; ; b c d 'x", "echo \"$(a && && b c)\" d e", "echo $(a $(b ; ; c d) e) f g", "a $((1 + $(b ; ; c d e) )) f",
			// the parser has given up before the substitution, whose own parse fails as well
			"a | | $(b | | -c -d) e", "a ; ; `b && && c d` e f", "a | | \"$(b ; ; c d)\" e f", ") $(a | | b c) d", "a | | $(b $(c ; ; d e) f) g", "a | | x$((1 + $(b ; ; c d) ))y z", "{ a; } } $(b | | c d e) f", "a | | $(cat <<E ; ; b c\nE\n) d",
			// a substitution is closed on the line of a here-document operator
			"echo $(cat <<E)", "echo `cat <<E`", "echo $(a; cat <<E) x", "x=$(cat <<-E)\n", "echo \"$(cat <<E)\" y", "echo $(cat <<A; cat <<B)",
			// the lexer fails in the token behind a command name that it still has to hand over
			"echo 'abc", "! echo 'abc", "a \"b", "a ${x", "a `b", "x=1 a 'b", "a b 'c", "a >f 'b", "if a 'b", "a | b 'c", "a; b \"c", "f() 'a",
			// the parser fails, and the lexer fails in the next token
			"; 'abc", "if then \"x", "a && && ${x", "echo $(; 'abc)", "a ) `b", "fi 'a",
			// a here-document is pending when the parser fails on the last token of the line
			"cat <<E ; ;\nbody\nE\nx\n", "cat <<E & &\nb\nE\n", "cat <<E | &&\nb\nE\n", "cat <<E; (;\nb\nE\n", "a <<E1 | b <<E2 | |\n1\nE1\n2\nE2\n", "cat <<-E )\n\tb\n\tE\n", "cat <<E fi\nb\nE\n", "{ cat <<E; } }\nb\nE\n"} {
			explore(t, c06Case{Kind: "parse", Src: src}, nil, false)
		}
		for _, e := range c06EvalExprs {
			explore(t, c06Case{Kind: "eval", Src: e, Store: map[string]string{"y": "3"}}, nil, false)
		}
		// a variable that holds no number, in an operand that is reduced before
		// the end of the expression, with something observable behind it
		for _, e := range []string{"x * 2 + 1", "(x + 1) + 08", "x * 2 + (y = 3)", "y + 7 + x << -1", "(x + 1) )", "x + 1 ? 2 : (y = 4)", "-x * (y += 1) + 09"} {
			explore(t, c06Case{Kind: "eval", Src: e, Store: map[string]string{"x": "abc", "y": "3"}}, nil, false)
		}
	}

	prop := func(rt *rapid.T) {
		var c c06Case
		switch rapid.IntRange(0, 4).Draw(rt, "class") {
		case 0, 1: // a small well-formed program
			o := genOpts()
			o.MaxDepth = rapid.IntRange(1, 2).Draw(rt, "maxdepth")
			o.Budget = rapid.IntRange(1, 3).Draw(rt, "budget")
			p := gen.Complete(gen.RapidChooser{T: rt}, o)
			c = c06Case{Kind: "parse", Src: gen.Render(p.Stream, gen.Canonical{}).Src}
			if p.Feat["heredoc"] > 0 {
				st.Class("input_with_heredoc")
			}
			if p.Feat["word:cmdsubst"]+p.Feat["word:backquote"] > 0 {
				st.Class("input_with_nested_substitution")
			}
			st.Class("input_valid")
		case 2: // a damaged program: one token deleted / inserted, or an unterminated tail
			c = c06Case{Kind: "parse", Src: c06Damaged(rt, 2, 3)}
			st.Class("input_damaged")
			if rapid.IntRange(0, 2).Draw(rt, "two_errors") == 0 {
				// an error of the outer parser, then a substitution whose parser fails too, then more text
				outer := rapid.SampledFrom([]string{"a | |", "a ; ;", ")", "{ a; } }", "a && &&", "if a; fi", "a | | b"}).Draw(rt, "outer")
				inner := rapid.SampledFrom([]string{"b | | c d", "b ; ; -c", "b && && c 'q", "b $(c ; ; d) e", "b", "b | | cat <<E\nE\n", "for i in; do ; done x"}).Draw(rt, "inner")
				wrap := rapid.SampledFrom([]string{"$(%s)", "`%s`", "\"$(%s)\"", "x$(%s)y", "${v:-$(%s)}", "$((1 + $(%s)))"}).Draw(rt, "wrap")
				tail := rapid.SampledFrom([]string{" e", " e f g", "", "\n", " 'q"}).Draw(rt, "tail")
				c.Src = outer + " " + fmt.Sprintf(wrap, inner) + tail
				st.Class("input_outer_error_then_failing_substitution")
			}
		default: // arithmetic with faults and assignments
			k := rapid.IntRange(1, 3).Draw(rt, "nexpr")
			var parts []string
			for i := 0; i < k; i++ {
				parts = append(parts, rapid.SampledFrom([]string{"1", "x", "y", "08", "x=2", "y+=x", "x++", "1/0", "(", ")", "+", "*", "@", "z = 08", "0x", "x << -1", "7"}).Draw(rt, "part"))
			}
			c = c06Case{Kind: "eval", Src: strings.Join(parts, rapid.SampledFrom([]string{" ", " + ", " "}).Draw(rt, "glue")), Store: map[string]string{"y": rapid.SampledFrom([]string{"3", "abc", ""}).Draw(rt, "yval")}}
		}
		// beyond the enumeration limit: sampled schedules
		var extra [][]int
		for i := rapid.IntRange(0, 3).Draw(rt, "nextra"); i > 0; i-- {
			extra = append(extra, rapid.SliceOfN(rapid.IntRange(0, 3), 0, 40).Draw(rt, "schedule"))
		}
		explore(rt, c, extra, true)
		st.Sample(map[string]any{"kind": c.Kind, "src": c.Src})
	}
	runRapid(t, n, prop)
	st.Note("controlled scheduler: every input is run under all orderings of the lexer / parser goroutines around each token hand-off, cancel, here-document wait and nested-lexer join (depth-first enumeration up to %d runs per input, plus rapid-drawn schedules); compared across schedules: commands+comments incl. positions, error, bytes consumed; checked per run: no deadlock, every goroutine of the call exits, none alive at return, reader untouched afterwards", limit)
	_ = ref.Sentence
}

var c06Nonce int

// c06Call is one call of an entry point on arguments of its own.
type c06Call struct {
	Kind string `json:"kind"` // parse | eval | match | expand | print
	Src  string `json:"src"`
}

type c06Concurrent struct {
	Calls []c06Call `json:"calls"`
}

func (c c06Call) run() string {
	switch c.Kind {
	case "eval":
		env := interp.NewExecEnv("sh")
		env.Set("y", "3")
		n, err := env.Eval(c.Src)
		x, _ := env.Get("x")
		return fmt.Sprint(n, err, x.Value)
	case "match":
		m, err := pattern.Match([]string{c.Src}, pattern.Prefix|pattern.Largest, "abcab")
		m2, err2 := pattern.Match([]string{c.Src}, pattern.Suffix|pattern.Smallest, "xaby")
		return fmt.Sprint(m, err, m2, err2)
	case "expand":
		env := interp.NewExecEnv("sh")
		env.Opts |= interp.NoGlob
		env.Set("x", "cabab")
		cmd, _, err := parser.ParseCommand("c06", "_ "+c.Src)
		if err != nil {
			return "parse: " + err.Error()
		}
		f, err := env.Expand(cmd.(*ast.Cmd).Expr.(*ast.SimpleCmd).Args[1], 0)
		return fmt.Sprint(f, err)
	case "print":
		cmds, _, err := parser.ParseCommands(nil, "c06", c.Src)
		if err != nil {
			return "parse: " + err.Error()
		}
		var b strings.Builder
		for _, cmd := range cmds {
			err = printer.Fprint(&b, cmd)
		}
		return fmt.Sprint(b.String(), err)
	}
	cmds, comments, err := parser.ParseCommands(nil, "c06", c.Src)
	return oracle.Snapshot(cmds) + oracle.Snapshot(comments) + fmt.Sprint(err)
}

// checkC06Concurrent runs the calls one after the other, then all at once
// (three times), and compares.
func checkC06Concurrent(c c06Concurrent) error {
	// at the same time first (anything the library keeps between calls is
	// still cold then), alone afterwards
	want := make([]string, len(c.Calls))
	for round := 0; round < 3; round++ {
		got := make([]string, len(c.Calls))
		var wg sync.WaitGroup
		for i, call := range c.Calls {
			wg.Add(1)
			go func(i int, call c06Call) {
				defer wg.Done()
				got[i] = call.run()
			}(i, call)
		}
		done := make(chan struct{})
		go func() { wg.Wait(); close(done) }()
		select {
		case <-done:
		case <-time.After(60 * time.Second):
			return fmt.Errorf("the calls %+v, started at the same time, did not all return within 60s", c.Calls)
		}
		if round == 0 {
			for i, call := range c.Calls {
				want[i] = call.run()
			}
		}
		for i := range got {
			if got[i] != want[i] {
				return fmt.Errorf("%s(%q) run at the same time as %+v gives\n%s\nalone it gives\n%s", c.Calls[i].Kind, c.Calls[i].Src, c.Calls, got[i], want[i])
			}
		}
	}
	return nil
}

// c06Within runs fn and reports whether it returned in time.
func c06Within(d time.Duration, fn func()) bool {
	done := make(chan struct{})
	go func() { defer close(done); fn() }()
	select {
	case <-done:
		return true
	case <-time.After(d):
		return false
	}
}

// ---- race detection (runs only in the -race binary) --------------------------

func TestC06Race(t *testing.T) {
	st := newStats("C06")
	defer st.Write()
	_, nsh := shard()
	n := 40000
	if thorough() {
		n = 60000
	}
	n /= nsh
	sched.SetPerturb(uint64(seed())*7919 + 1)
	defer sched.SetPerturb(0)
	// several here-documents on one line, many times over: the parser
	// announces them while the lexer already takes them
	if runtime.GOMAXPROCS(0) > 1 {
		reps := 6000
		if thorough() {
			reps = 40000
		}
		srcs := []string{"cat <<E0 <<E1\n0\nE0\n1\nE1\n", "a <<A <<-B <<C\n1\nA\n\t2\n\tB\n3\nC\n", "a <<A | b <<B && c <<C <<D\nA\nB\nC\nD\n", "x $(a <<A <<B\n1\nA\n2\nB\n) <<C <<D\nC\nD\n"}
		for i := 0; i < reps; i++ {
			src := srcs[i%len(srcs)]
			c := c06Case{Kind: "parse", Src: src}
			jr.begin("C06", "race", c)
			if !c06Within(60*time.Second, func() {
				if _, _, err := parser.ParseCommands(nil, "c06", src); err != nil {
					panic(fmt.Sprintf("ParseCommands(%q): %v", src, err))
				}
			}) {
				fail(t, "C06", "hang", c, "ParseCommands(%q) did not return within 60s under perturbed free scheduling (repetition %d)", src, i)
			}
			jr.end()
		}
		st.EvalN(int64(reps), int64(reps))
		st.ClassN("several_heredocs_on_one_line_repeated", int64(reps))
		// the lexer fails in the token behind a word it still has to hand
		// over, or right behind the token the parser rejects: what comes back
		// (commands, comments, error) is the same every time
		ereps := 12000
		if thorough() {
			ereps = 200000
		}
		esrcs := []string{"echo 'abc", "! echo 'abc", "a \"b", "a ${x", "; 'abc", "if then \"x", "a && && ${x", "echo $(; 'abc)", "a b `c", "x=1 a 'b", "fi 'a", "a | | 'q"}
		first := map[string]string{}
		outcome := func(src string) string {
			cmds, comments, err := parser.ParseCommands(nil, "c06", src)
			return fmt.Sprintf("%s | %s | %v", strings.Join(oracle.Commands(cmds, oracle.Exact), " ;; "), strings.Join(oracle.Comments(comments), " "), err)
		}
		for i := 0; i < ereps; i++ {
			src := esrcs[i%len(esrcs)]
			c := c06Case{Kind: "parse", Src: src}
			jr.begin("C06", "race", c)
			var got string
			if !c06Within(60*time.Second, func() { got = outcome(src) }) {
				fail(t, "C06", "hang", c, "ParseCommands(%q) did not return within 60s under perturbed free scheduling (repetition %d)", src, i)
			}
			jr.end()
			if w, ok := first[src]; !ok {
				first[src] = got
			} else if got != w {
				fail(t, "C06", "repeat", c, "ParseCommands(%q) under perturbed free scheduling: repetition %d returns\n  %s\nthe first call returned\n  %s", src, i, got, w)
				break
			}
		}
		st.EvalN(int64(ereps), int64(ereps))
		st.ClassN("lexer_failure_next_to_a_handover_repeated", int64(ereps))
	}
	prop := func(rt *rapid.T) {
		if rapid.IntRange(0, 9).Draw(rt, "concurrent") == 0 {
			// independent calls at the same time: each works on its own
			// arguments, so each must give what it gives alone
			var calls []c06Call
			for i := rapid.IntRange(2, 4).Draw(rt, "ncalls"); i > 0; i-- {
				c := c06Call{Kind: rapid.SampledFrom([]string{"parse", "eval", "match", "expand", "print"}).Draw(rt, "kind")}
				switch c.Kind {
				case "eval":
					c.Src = rapid.SampledFrom(c06EvalExprs).Draw(rt, "expr")
				case "match":
					// a pattern nobody has used before
					c06Nonce++
					c.Src = rapid.SampledFrom([]string{"a*", "*b", "[a-c]?", "a", "?", "x*y", "*"}).Draw(rt, "pat") + fmt.Sprintf("n%d", c06Nonce)
				case "expand":
					c06Nonce++
					c.Src = rapid.SampledFrom([]string{"${x%b*N}", "${x#*aN}", "$((x + 1))", "\"$x\" ${y:-z}", "a*N"}).Draw(rt, "word")
					c.Src = strings.ReplaceAll(c.Src, "N", fmt.Sprintf("n%d", c06Nonce))
				default:
					o := genOpts()
					o.MaxDepth = rapid.IntRange(1, 2).Draw(rt, "maxdepth")
					o.Budget = rapid.IntRange(1, 4).Draw(rt, "budget")
					c.Src = gen.Render(gen.Complete(gen.RapidChooser{T: rt}, o).Stream, gen.Canonical{}).Src
				}
				calls = append(calls, c)
			}
			cc := c06Concurrent{Calls: calls}
			jr.begin("C06", "concurrent", cc)
			if err := checkC06Concurrent(cc); err != nil {
				fail(rt, "C06", "concurrent", cc, "%v", err)
			}
			jr.end()
			st.Eval(true, "concurrent", fmt.Sprint(calls))
			st.Class("independent_calls_at_the_same_time")
			return
		}
		if rapid.IntRange(0, 3).Draw(rt, "class") != 0 {
			o := genOpts()
			o.MaxDepth = rapid.IntRange(1, 3).Draw(rt, "maxdepth")
			o.Budget = rapid.IntRange(1, 5).Draw(rt, "budget")
			p := gen.Complete(gen.RapidChooser{T: rt}, o)
			src := gen.Render(p.Stream, gen.Canonical{}).Src
			if !excluded["no_join_on_error_paths"] && rapid.IntRange(0, 2).Draw(rt, "damage") == 0 {
				// error paths are raced as well
				src = c06Damaged(rt, 3, 5)
				st.Class("raced_damaged_program")
			}
			c := c06Case{Kind: "parse", Src: src}
			jr.begin("C06", "race", c)
			if !c06Within(60*time.Second, func() { parser.ParseCommands(nil, "c06", src) }) {
				c.Src = src
				fail(rt, "C06", "hang", c, "ParseCommands(%q) did not return within 60s under perturbed free scheduling", src)
			}
			jr.end()
			st.Eval(true, "race", src)
		} else {
			exprs := c06EvalExprs
			if excluded["no_join_on_error_paths_eval"] {
				// while that finding is open, only expressions that evaluate
				// without error (on error paths Eval reads fields the lexer
				// goroutine may still write)
				exprs = []string{"1+2", "x=5", "x = y + 1", "x++ + y", "(1+2)*3", "x = 1 ? 2 : 3", "x += y = 3", "-x", "x <<= 2", "y--"}
			}
			src := rapid.SampledFrom(exprs).Draw(rt, "expr")
			env := interp.NewExecEnv("sh")
			env.Set("y", "3")
			c := c06Case{Kind: "eval", Src: src}
			jr.begin("C06", "race", c)
			if !c06Within(60*time.Second, func() { env.Eval(src) }) {
				fail(rt, "C06", "hang", c, "Eval(%q) did not return within 60s under perturbed free scheduling", src)
			}
			jr.end()
			st.Eval(true, "race-eval", src)
		}
	}
	runRapid(t, n, prop)
	st.Note("race detector: the same generators run freely under -race with unsynchronised pseudo-random delays injected at every hook point (GOMAXPROCS as set by the driver)")
}

// TestC06Trace is a development aid: replays VERIF_REPLAY's first schedule
// with the scheduler's trace switched on and prints its tail.
func TestC06Trace(t *testing.T) {
	p := os.Getenv("VERIF_C06_TRACE")
	if p == "" {
		t.Skip()
	}
	b, _ := os.ReadFile(p)
	var f Failure
	json.Unmarshal(b, &f)
	c, _ := decode[c06Case](f.Case)
	o, tr := c06RunOnce(c, c.Schedules[0], true)
	fmt.Printf("outcome: err=%q deadlock=%v drained=%v alive=%v\n", o.Err, o.Deadlock, o.Drained, o.Alive)
	n := envInt("VERIF_C06_TAIL", 40)
	if len(tr) > n {
		tr = tr[len(tr)-n:]
	}
	fmt.Println(strings.Join(tr, "\n"))
}
