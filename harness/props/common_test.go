// Package props holds one test per listed property. Every test is driven by
// the Python driver (/verif/driver.py) through environment variables:
//
//	VERIF_TIER    quick | thorough
//	VERIF_SEED    integer seed (the driver also passes -rapid.seed)
//	VERIF_SHARD   index of this process, VERIF_NSHARD number of processes
//	VERIF_OUT     directory for statistics, failures and the in-flight journal
//	VERIF_EXCLUDE comma separated generator feature switches (known findings)
//	VERIF_REPLAY  path of a replay file (TestReplay only)
package props

import (
	"bytes"
	"encoding/binary"
	"encoding/json"
	"flag"
	"fmt"
	"hash/fnv"
	"os"
	"path/filepath"
	"sort"
	"strconv"
	"strings"
	"sync"
	"testing"
	"time"

	"pgregory.net/rapid"

	"verif/gen"
)

// ---- environment ----------------------------------------------------------

func envInt(name string, def int) int {
	if s := os.Getenv(name); s != "" {
		if n, err := strconv.Atoi(s); err == nil {
			return n
		}
	}
	return def
}

func tier() string {
	if os.Getenv("VERIF_TIER") == "thorough" {
		return "thorough"
	}
	return "quick"
}

func thorough() bool { return tier() == "thorough" }

func seed() int {
	s := envInt("VERIF_SEED", 1)
	if s == 0 {
		s = 1
	}
	return s
}

func shard() (int, int) {
	n := envInt("VERIF_NSHARD", 1)
	if n < 1 {
		n = 1
	}
	return envInt("VERIF_SHARD", 0) % n, n
}

func outDir() string {
	d := os.Getenv("VERIF_OUT")
	if d == "" {
		d = filepath.Join(os.TempDir(), "verif-out")
	}
	os.MkdirAll(d, 0o755)
	return d
}

var excluded = func() map[string]bool {
	m := map[string]bool{}
	for _, s := range strings.Split(os.Getenv("VERIF_EXCLUDE"), ",") {
		if s = strings.TrimSpace(s); s != "" {
			m[s] = true
			gen.RenderExclude[s] = true
		}
	}
	return m
}()

// ---- statistics -------------------------------------------------------------

// Stats collects what a run covered. One instance per test process.
type Stats struct {
	mu          sync.Mutex
	Property    string           `json:"property"`
	Shard       int              `json:"shard"`
	Evaluations int64            `json:"evaluations"`
	Disjoint    int64            `json:"nontrivial_disjoint"` // non-trivial cases known distinct by construction (enumerations)
	Exhaustive  bool             `json:"exhaustive"`
	Classes     map[string]int64 `json:"classes"`
	Excluded    map[string]int64 `json:"excluded_by_finding"`
	Samples     []any            `json:"samples"`
	Notes       []string         `json:"notes"`
	WallS       float64          `json:"wall_s"`
	hashes      map[uint64]struct{}
	start       time.Time
	sampleEvery int64
	maxHashes   int
}

func newStats(prop string) *Stats {
	sh, _ := shard()
	return &Stats{
		Property:    prop,
		Shard:       sh,
		Classes:     map[string]int64{},
		Excluded:    map[string]int64{},
		hashes:      map[uint64]struct{}{},
		start:       time.Now(),
		sampleEvery: 1,
		maxHashes:   4 << 20,
	}
}

func hash64(parts ...string) uint64 {
	h := fnv.New64a()
	for _, p := range parts {
		h.Write([]byte(p))
		h.Write([]byte{0})
	}
	return h.Sum64()
}

// Eval counts one executed case. key identifies the case (for distinctness),
// nontrivial says whether it satisfies the property's stated rule.
func (s *Stats) Eval(nontrivial bool, key ...string) {
	s.mu.Lock()
	s.Evaluations++
	if nontrivial && len(s.hashes) < s.maxHashes {
		s.hashes[hash64(key...)] = struct{}{}
	}
	s.mu.Unlock()
}

// EvalN counts n cases of an enumeration whose non-trivial members are
// distinct by construction.
func (s *Stats) EvalN(n, nontrivial int64) {
	s.mu.Lock()
	s.Evaluations += n
	s.Disjoint += nontrivial
	s.mu.Unlock()
}

func (s *Stats) Class(name string) { s.ClassN(name, 1) }

func (s *Stats) ClassN(name string, n int64) {
	s.mu.Lock()
	s.Classes[name] += n
	s.mu.Unlock()
}

func (s *Stats) Exclude(name string) {
	s.mu.Lock()
	s.Excluded[name]++
	s.mu.Unlock()
}

// Sample keeps the case if it falls on a (geometrically thinning) sampling
// position, so that samples are spread over the whole run.
func (s *Stats) Sample(c any) {
	s.mu.Lock()
	defer s.mu.Unlock()
	if s.Evaluations%s.sampleEvery != 0 {
		return
	}
	s.Samples = append(s.Samples, c)
	if len(s.Samples) >= 16 {
		// keep every second one, halve the rate
		k := 0
		for i := 0; i < len(s.Samples); i += 2 {
			s.Samples[k] = s.Samples[i]
			k++
		}
		s.Samples = s.Samples[:k]
		s.sampleEvery *= 2
	}
}

func (s *Stats) Note(format string, a ...any) {
	s.mu.Lock()
	s.Notes = append(s.Notes, fmt.Sprintf(format, a...))
	s.mu.Unlock()
}

// Write stores the statistics and the hash set of non-trivial cases.
func (s *Stats) Write() {
	jr.close()
	s.mu.Lock()
	defer s.mu.Unlock()
	for k, v := range gen.RenderExcluded {
		s.Excluded[k] += int64(v)
	}
	s.WallS = time.Since(s.start).Seconds()
	dir := outDir()
	b, _ := json.Marshal(s)
	os.WriteFile(filepath.Join(dir, fmt.Sprintf("stats-%d.json", s.Shard)), b, 0o644)
	hs := make([]uint64, 0, len(s.hashes))
	for h := range s.hashes {
		hs = append(hs, h)
	}
	sort.Slice(hs, func(i, j int) bool { return hs[i] < hs[j] })
	buf := make([]byte, 8*len(hs))
	for i, h := range hs {
		binary.LittleEndian.PutUint64(buf[8*i:], h)
	}
	os.WriteFile(filepath.Join(dir, fmt.Sprintf("hashes-%d.bin", s.Shard)), buf, 0o644)
}

// ---- failures ---------------------------------------------------------------

// Failure is the replay file format.
type Failure struct {
	Property string          `json:"property"`
	Check    string          `json:"check"`
	Case     json.RawMessage `json:"case"`
	Message  string          `json:"message,omitempty"`
	Seed     int             `json:"seed,omitempty"`
	Tier     string          `json:"tier,omitempty"`
}

type fataler interface {
	Fatalf(format string, args ...any)
	Helper()
}

var failSeq int

// fail persists the failing case as a replay file and fails the test. Under
// rapid the property is re-run while shrinking; the file is overwritten each
// time, and the last one written belongs to the minimal case.
func fail(t fataler, prop, check string, c any, format string, a ...any) {
	t.Helper()
	msg := fmt.Sprintf(format, a...)
	raw, err := json.Marshal(c)
	if err != nil {
		raw, _ = json.Marshal(fmt.Sprintf("%+v", c))
	}
	sh, _ := shard()
	f := Failure{Property: prop, Check: check, Case: raw, Message: msg, Seed: seed(), Tier: tier()}
	b, _ := json.MarshalIndent(f, "", " ")
	os.WriteFile(filepath.Join(outDir(), fmt.Sprintf("fail-%d.json", sh)), b, 0o644)
	if len(msg) > 1500 {
		msg = msg[:1500] + "...(see replay file)"
	}
	if len(raw) > 600 {
		raw = append(raw[:600:600], []byte("...(see replay file)")...)
	}
	t.Fatalf("%s/%s: %s\ncase: %s", prop, check, msg, raw)
}

// ---- in-flight journal ------------------------------------------------------

// journal records the case that is about to run, so that the driver can name
// the input when the process dies from a background goroutine.
type journal struct {
	f    *os.File
	n    int
	open bool
}

var jr = func() *journal {
	sh, _ := shard()
	f, err := os.OpenFile(filepath.Join(outDir(), fmt.Sprintf("inflight-%d.json", sh)), os.O_CREATE|os.O_RDWR|os.O_TRUNC, 0o644)
	if err != nil {
		return &journal{}
	}
	return &journal{f: f}
}()

func (j *journal) begin(prop, check string, c any) {
	if j.f == nil {
		return
	}
	raw, _ := json.Marshal(c)
	b, _ := json.Marshal(Failure{Property: prop, Check: check, Case: raw, Message: "process died while this case was running", Seed: seed(), Tier: tier()})
	// one write: the record, padded with blanks so that a shorter record
	// overwrites a longer one completely (no truncate system call per case)
	n := len(b)
	if n < j.n {
		b = append(b, bytes.Repeat([]byte{' '}, j.n-n)...)
	}
	j.n = n
	j.f.WriteAt(b, 0)
	j.open = true
}

func (j *journal) end() {
	j.open = false
}

// close empties the journal when the test function returns normally.
func (j *journal) close() {
	if j.f != nil && !j.open {
		j.f.Truncate(0)
	}
}

// ---- replay registry --------------------------------------------------------

// checkFn re-executes one persisted case and returns an error describing the
// violation, or nil.
type checkFn func(raw json.RawMessage) error

var registry = map[string]checkFn{}

func register(prop, check string, fn checkFn) { registry[prop+"/"+check] = fn }

func replayFile(path string) (*Failure, error) {
	b, err := os.ReadFile(path)
	if err != nil {
		return nil, fmt.Errorf("replay file: %v", err)
	}
	var f Failure
	if err := json.Unmarshal(b, &f); err != nil {
		return nil, fmt.Errorf("replay file %s: %v", path, err)
	}
	fn := registry[f.Property+"/"+f.Check]
	if fn == nil {
		return &f, fmt.Errorf("replay file %s: unknown check %s/%s", path, f.Property, f.Check)
	}
	return &f, fn(f.Case)
}

// TestReplay re-executes the case(s) named by VERIF_REPLAY (a file, or a
// directory of files) through the same oracle, bypassing all generators.
// It prints one line per file: "REPLAY <path> PASS|FAIL|ERROR <detail>".
func TestReplay(t *testing.T) {
	p := os.Getenv("VERIF_REPLAY")
	if p == "" {
		t.Skip("VERIF_REPLAY not set")
	}
	var files []string
	for _, p := range strings.Split(p, string(os.PathListSeparator)) {
		if st, err := os.Stat(p); err == nil && st.IsDir() {
			m, _ := filepath.Glob(filepath.Join(p, "*.json"))
			sort.Strings(m)
			files = append(files, m...)
		} else {
			files = append(files, p)
		}
	}
	bad := 0
	for _, f := range files {
		fl, err := replayFile(f)
		switch {
		case fl == nil || (err != nil && strings.HasPrefix(err.Error(), "replay file")):
			fmt.Printf("REPLAY %s ERROR %v\n", f, err)
			bad++
		case err != nil:
			fmt.Printf("REPLAY %s FAIL %s\n", f, oneLine(err.Error()))
			bad++
		default:
			fmt.Printf("REPLAY %s PASS\n", f)
		}
	}
	if bad != 0 {
		t.Fatalf("%d of %d replayed cases failed", bad, len(files))
	}
}

func oneLine(s string) string {
	s = strings.ReplaceAll(s, "\n", "\\n")
	if len(s) > 400 {
		s = s[:400] + "..."
	}
	return s
}

func decode[T any](raw json.RawMessage) (T, error) {
	var c T
	err := json.Unmarshal(raw, &c)
	return c, err
}

// reg registers a typed check function.
func reg[T any](prop, check string, fn func(T) error) {
	register(prop, check, func(raw json.RawMessage) error {
		c, err := decode[T](raw)
		if err != nil {
			return fmt.Errorf("replay file: bad case: %v", err)
		}
		return fn(c)
	})
}

// guard runs fn and converts a panic of the calling goroutine into an error.
func guard(fn func() error) (err error) {
	defer func() {
		if e := recover(); e != nil {
			err = fmt.Errorf("panic: %v", e)
		}
	}()
	return fn()
}

// ---- rapid ------------------------------------------------------------------

// runRapid runs prop n times with a seed derived from VERIF_SEED and the
// shard index. testdata/rapid is never used; failures are persisted by fail().
func runRapid(t *testing.T, n int, prop func(*rapid.T)) {
	t.Helper()
	if n < 1 {
		n = 1
	}
	sh, _ := shard()
	flag.Set("rapid.checks", strconv.Itoa(n))
	flag.Set("rapid.seed", strconv.Itoa(seed()*1000+sh+1))
	flag.Set("rapid.nofailfile", "true")
	if st := os.Getenv("VERIF_SHRINKTIME"); st != "" {
		flag.Set("rapid.shrinktime", st)
	} else if thorough() {
		flag.Set("rapid.shrinktime", "120s")
	} else {
		flag.Set("rapid.shrinktime", "30s")
	}
	rapid.Check(t, prop)
}

func flagSet(name, value string) { flag.Set(name, value) }
