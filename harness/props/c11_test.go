package props

import (
	"fmt"
	"sort"
	"strconv"
	"strings"
	"testing"

	"github.com/hattya/go.sh/ast"
	"github.com/hattya/go.sh/interp"
	"github.com/hattya/go.sh/parser"
	"pgregory.net/rapid"

	"verif/ref"
)

// C11 — arithmetic follows C on int64.

type c11Case struct {
	Tree  *ref.ANode         `json:"tree"`
	Src   string             `json:"src"`   // the rendered expression
	Store map[string]*string `json:"store"` // nil = unset
	Path  string             `json:"path"`  // "eval" or "expand" ($((src)) parsed and expanded)
	// Opts are the options of the environment (the statement knows none: an
	// unset variable reads as 0 under nounset as well).
	Opts uint `json:"opts,omitempty"`
}

var (
	// (positional parameters with numeric values: a constant is a constant,
	// whatever $1, $2 ... hold)
	c11Env  = interp.NewExecEnv("sh", "40", "41", "42", "43", "44", "45", "46", "47", "48", "49", "50")
	c11Vars = []string{"x", "y", "z", "x1"} // a name with a digit among them
)

// c11NonLvalues: operands of assignments and of ++ / -- that are no lvalues
// (the first is a constant; the others contain a variable, and evaluating
// them has no effect).
var c11NonLvalues = []string{"1", "(1 ? x : y)", "(0 ? x : y)", "(x + 0)", "(0 || x)", "(- x)", "(1 ? (x) : 2)"}

func c11Key(c c11Case) []string {
	var st []string
	for _, v := range c11Vars {
		if p, ok := c.Store[v]; ok && p != nil {
			st = append(st, v+"="+*p)
		}
	}
	return []string{c.Src, strings.Join(st, ";"), c.Path}
}

// checkC11 returns the reason the case was left out of the comparison (""
// if it was compared) and the violation, if any.
func checkC11(c c11Case) (skip string, err error) {
	if !c.Tree.Defined() {
		return "unsequenced_modification", nil
	}
	mk := func(rtl bool) (*ref.AEval, int64, *ref.AFault) {
		e := &ref.AEval{Store: map[string]string{}, RTL: rtl}
		for k, p := range c.Store {
			if p != nil {
				e.Store[k] = *p
			}
		}
		v, f := e.Eval(c.Tree)
		return e, v, f
	}
	faulty := map[string]bool{}
	for k, p := range c.Store {
		if p != nil && *p != "" {
			if _, ok := ref.ParseNumber(*p, true); !ok {
				faulty[k] = true
			}
		}
	}
	if c.Tree.UnsequencedFault(faulty) {
		return "fault_unsequenced_with_side_effect", nil
	}
	ev, want, fault := mk(false)
	ev2, want2, fault2 := mk(true)
	if (fault == nil) != (fault2 == nil) || want != want2 || !sameStore(ev.Store, ev2.Store) {
		return "depends_on_operand_order", nil
	}
	undefined := fault == ref.ErrUndefined || fault2 == ref.ErrUndefined
	lazy := ev.LazySensitive || ev2.LazySensitive
	if ev.SkippedBadConst || ev2.SkippedBadConst {
		return "malformed_constant_in_unevaluated_operand", nil
	}
	if (lazy || c.Tree.SideEffectUnderSeqOp()) && excluded["arith_lazy"] {
		return "excluded:arith_lazy", nil
	}

	env := c11Env
	env.Opts = interp.Option(c.Opts)
	for _, v := range c11Vars {
		env.Unset(v)
	}
	for k, p := range c.Store {
		if p != nil {
			env.Set(k, *p)
		}
	}
	var got int
	var gerr error
	run := func() error {
		return guard(func() error {
			switch c.Path {
			case "expand":
				src := "_ $((" + c.Src + "))"
				cmd, _, err := parser.ParseCommand("c11", src)
				if err != nil {
					return fmt.Errorf("harness: %q does not parse: %v", src, err)
				}
				w := cmd.(*ast.Cmd).Expr.(*ast.SimpleCmd).Args[1]
				var f []string
				f, gerr = env.Expand(w, 0)
				if gerr == nil {
					if len(f) != 1 {
						return fmt.Errorf("Expand($((%s))) = %q, want one field", c.Src, f)
					}
					n, err := strconv.ParseInt(f[0], 10, 64)
					if err != nil {
						return fmt.Errorf("Expand($((%s))) = %q, not a number", c.Src, f)
					}
					got = int(n)
				}
			default:
				got, gerr = env.Eval(c.Src)
			}
			return nil
		})
	}
	if err := run(); err != nil {
		return "", fmt.Errorf("%s %q store %s: %v", c.Path, c.Src, storeString(c.Store), err)
	}
	if undefined {
		return "undefined_in_C_no_crash_only", nil
	}
	desc := fmt.Sprintf("%s(%q) with %s", c.Path, c.Src, storeString(c.Store))
	if fault != nil {
		if gerr == nil {
			return "", fmt.Errorf("%s = %d, want an error (%s)", desc, got, fault.Msg)
		}
		if _, ok := gerr.(interp.ArithExprError); !ok {
			return "", fmt.Errorf("%s: error %T %v, want an ArithExprError", desc, gerr, gerr)
		}
		if fault.Panic && c.Path == "eval" {
			// faults go.sh detects through a recovered run-time panic end the
			// evaluation at once: the error is the same on every run
			first := gerr.Error()
			for i := 0; i < 2; i++ {
				for _, v := range c11Vars {
					env.Unset(v)
				}
				for k, p := range c.Store {
					if p != nil {
						env.Set(k, *p)
					}
				}
				if err := run(); err != nil {
					return "", err
				}
				if gerr == nil || gerr.Error() != first {
					return "", fmt.Errorf("%s: error %q on the first run, %v on a later one", desc, first, gerr)
				}
			}
		}
		if excluded["arith_assign_after_fault"] && (ev.FaultInsideAsgRHS || ev2.FaultInsideAsgRHS) {
			// while that finding is open the store is not compared when the fault
			// arose inside the right-hand side of an assignment
			return "excluded:arith_assign_after_fault", nil
		}
	} else {
		if gerr != nil {
			return "", fmt.Errorf("%s: unexpected error %v, want %d", desc, gerr, want)
		}
		if int64(got) != want {
			return "", fmt.Errorf("%s = %d, want %d", desc, got, want)
		}
	}
	for _, v := range c11Vars {
		g, gset := env.Get(v)
		w, wset := ev.Store[v]
		if gset != wset || g.Value != w {
			return "", fmt.Errorf("%s: afterwards %s=%q (set=%v), want %q (set=%v)", desc, v, g.Value, gset, w, wset)
		}
	}
	return "", nil
}

func sameStore(a, b map[string]string) bool {
	if len(a) != len(b) {
		return false
	}
	for k, v := range a {
		if w, ok := b[k]; !ok || w != v {
			return false
		}
	}
	return true
}

func storeString(st map[string]*string) string {
	var ks []string
	for k := range st {
		ks = append(ks, k)
	}
	sort.Strings(ks)
	var b strings.Builder
	b.WriteString("{")
	for _, k := range ks {
		if st[k] == nil {
			fmt.Fprintf(&b, " %s unset", k)
		} else {
			fmt.Fprintf(&b, " %s=%q", k, *st[k])
		}
	}
	return b.String() + " }"
}

func c11NonTrivial(c c11Case) bool {
	f := c.Tree.Features()
	if len(f.Precs) >= 2 || f.SideEffect || f.Boundary {
		return true
	}
	e := &ref.AEval{Store: map[string]string{}}
	for k, p := range c.Store {
		if p != nil {
			e.Store[k] = *p
			if *p == "-9223372036854775808" {
				return true
			}
		}
	}
	_, fault := e.Eval(c.Tree)
	return fault != nil
}

func init() {
	reg("C11", "arith", func(c c11Case) error {
		_, err := checkC11(c)
		return err
	})
}

func sp(s string) *string { return &s }

var c11Stores = []map[string]*string{
	{"x": sp("5"), "y": sp("3")},
	{"x": nil, "y": sp("")},
	{"x": sp("010"), "y": sp("0x10")},
	{"x": sp("-9223372036854775808"), "y": sp("-1")},
	{"x": sp("abc"), "y": sp("2")},
	{"x": sp("0"), "y": sp("08")},
	{"x": sp("9223372036854775807"), "y": sp("0")},
	{"x": sp("-7"), "y": sp("1z")},
	// number syntax of Go that is not number syntax of C or of the shell
	{"x": sp("0b101"), "y": sp("1_000")},
}

var (
	c11Unops  = []string{"+", "-", "~", "!"}
	c11Binops = []string{"*", "/", "%", "+", "-", "<<", ">>", "<", ">", "<=", ">=", "==", "!=", "&", "^", "|", "&&", "||"}
	c11Asgops = []string{"=", "*=", "/=", "%=", "+=", "-=", "<<=", ">>=", "&=", "^=", "|="}
)

func TestC11(t *testing.T) {
	st := newStats("C11")
	defer st.Write()
	sh, nsh := shard()

	run := func(tt fataler, c c11Case, rapidCase bool) {
		jr.begin("C11", "arith", c)
		skip, err := checkC11(c)
		jr.end()
		if err != nil {
			fail(tt, "C11", "arith", c, "%v", err)
		}
		nt := false
		if skip == "" {
			nt = c11NonTrivial(c)
		} else {
			st.Class("not_compared:" + skip)
			if strings.HasPrefix(skip, "excluded:") {
				st.Exclude(strings.TrimPrefix(skip, "excluded:"))
			}
		}
		if rapidCase {
			st.Eval(nt, c11Key(c)...)
		} else if nt {
			st.EvalN(1, 1)
		} else {
			st.EvalN(1, 0)
		}
		st.Class("path_" + c.Path)
	}

	// (a) exhaustive: all trees of depth <= 2 in which one operand of the
	// outer operator is an atom
	lits := []string{"0", "1", "2", "3", "7", "9223372036854775807", "010", "0x1F", "64", "08"}
	var atoms []*ref.ANode
	for _, l := range lits {
		atoms = append(atoms, &ref.ANode{Kind: "num", S: l})
	}
	atoms = append(atoms, &ref.ANode{Kind: "var", S: "x"}, &ref.ANode{Kind: "var", S: "y"})
	three := atoms[3]
	var d1 []*ref.ANode
	d1 = append(d1, atoms...)
	for _, op := range c11Unops {
		for _, a := range atoms {
			d1 = append(d1, &ref.ANode{Kind: "un", Op: op, A: a})
		}
	}
	for _, k := range []string{"preinc", "predec", "postinc", "postdec"} {
		for _, v := range []string{"x", "y", "1"} {
			d1 = append(d1, &ref.ANode{Kind: k, S: v})
		}
	}
	for _, op := range c11Binops {
		for _, a := range atoms {
			for _, b := range atoms {
				d1 = append(d1, &ref.ANode{Kind: "bin", Op: op, A: a, B: b})
			}
		}
	}
	for _, op := range c11Asgops {
		for _, v := range []string{"x", "y", "1"} {
			for _, a := range atoms {
				d1 = append(d1, &ref.ANode{Kind: "asg", Op: op, S: v, A: a})
			}
		}
	}
	// targets that are no lvalues although a variable stands in them (none of
	// them has an effect of its own)
	var d1nl []*ref.ANode
	for _, v := range c11NonLvalues[1:] {
		for _, k := range []string{"preinc", "predec", "postinc", "postdec"} {
			d1nl = append(d1nl, &ref.ANode{Kind: k, S: v})
		}
		for _, op := range c11Asgops {
			d1nl = append(d1nl, &ref.ANode{Kind: "asg", Op: op, S: v, A: three})
		}
	}
	idx := 0
	each := func(tr *ref.ANode) {
		idx++
		if idx%nsh != sh {
			return
		}
		src := ref.Join(tr.Tokens(nil), func() string { return " " })
		for si, store := range c11Stores {
			c := c11Case{Tree: tr, Src: src, Store: store, Path: "eval"}
			if (idx+si)%3 == 0 {
				c.Opts = uint(interp.NoUnset)
			}
			run(t, c, false)
			if (idx+si)%8 == 0 {
				c.Path = "expand"
				run(t, c, false)
			}
			if idx%200003 == 0 && si == idx%len(c11Stores) {
				st.Sample(map[string]any{"src": c.Src, "store": storeString(c.Store), "path": c.Path})
			}
		}
	}
	for _, tr := range d1 {
		each(tr)
	}
	for _, tr := range d1nl {
		each(tr)
		// (and where the fault is not to be seen: in an operand that is not evaluated)
		each(&ref.ANode{Kind: "bin", Op: "||", A: three, B: tr})
		each(&ref.ANode{Kind: "cond", A: three, B: three, C: tr})
		each(&ref.ANode{Kind: "bin", Op: "+", A: tr, B: &ref.ANode{Kind: "asg", Op: "=", S: "y", A: three}})
	}
	// operands that are not evaluated, nested hundreds of levels deep, with an
	// effect or a fault at the bottom: nothing of it is to be seen
	one, zero, two := &ref.ANode{Kind: "num", S: "1"}, &ref.ANode{Kind: "num", S: "0"}, &ref.ANode{Kind: "num", S: "2"}
	for _, depth := range []int{127, 128, 255, 256, 257, 512, 1024} {
		for bi, bottom := range []*ref.ANode{
			{Kind: "asg", Op: "=", S: "x", A: three},
			{Kind: "postinc", S: "y"},
			{Kind: "bin", Op: "/", A: one, B: zero},
		} {
			for form := 0; form < 4; form++ {
				tr := bottom
				for d := 0; d < depth; d++ {
					switch f := form; {
					case f == 0 || f == 3 && d%3 == 0:
						tr = &ref.ANode{Kind: "bin", Op: "||", A: one, B: tr}
					case f == 1 || f == 3 && d%3 == 1:
						tr = &ref.ANode{Kind: "bin", Op: "&&", A: zero, B: tr}
					default:
						tr = &ref.ANode{Kind: "cond", A: zero, B: tr, C: two}
					}
				}
				_ = bi
				each(tr)
			}
		}
	}
	for _, tr := range d1 {
		for _, op := range c11Unops {
			each(&ref.ANode{Kind: "un", Op: op, A: tr})
		}
		for _, a := range atoms {
			for _, op := range c11Binops {
				each(&ref.ANode{Kind: "bin", Op: op, A: tr, B: a})
				each(&ref.ANode{Kind: "bin", Op: op, A: a, B: tr})
			}
			each(&ref.ANode{Kind: "cond", A: tr, B: a, C: three})
			each(&ref.ANode{Kind: "cond", A: a, B: tr, C: three})
			each(&ref.ANode{Kind: "cond", A: a, B: three, C: tr})
		}
		for _, op := range c11Asgops {
			each(&ref.ANode{Kind: "asg", Op: op, S: "x", A: tr})
		}
	}
	st.Exhaustive = true
	st.Note("exhaustive: %d trees (every operator over the operand set %v + variables x, y; depth <= 2 with one operand of the outer operator an atom) x %d variable stores (decimal, octal, hex, empty, unset, MinInt64, MaxInt64, garbage, Go-only number syntax) through Eval; every 8th also through parse($((...))) + Expand", idx, lits, len(c11Stores))

	// (b) sampled trees of depth <= 4, random spacing, redundant parentheses
	n := 80000
	if thorough() {
		n = 20000000
	}
	n /= nsh
	values := []string{"0", "1", "5", "3", "-1", "-7", "010", "0x10", "0XfF", "", "9223372036854775807", "-9223372036854775808", "63", "64", "abc", "1z", "08", "0x", "+2", "0b101", "0o17", "1_000", "0x_ff", "0_7", "0B1", "0O7"}
	numGen := rapid.SampledFrom([]string{"0", "1", "2", "3", "7", "9223372036854775807", "010", "0x1F", "0X7f", "64", "63", "08", "0x", "9223372036854775808", "00", "1234567"})
	varGen := rapid.SampledFrom(c11Vars)
	var treeGen func(d int) *rapid.Generator[*ref.ANode]
	treeGen = func(d int) *rapid.Generator[*ref.ANode] {
		return rapid.Custom(func(t *rapid.T) *ref.ANode {
			k := 0
			if d > 0 {
				k = rapid.IntRange(0, 9).Draw(t, "kind")
			} else {
				k = rapid.IntRange(0, 1).Draw(t, "leaf")
			}
			switch k {
			case 0:
				return &ref.ANode{Kind: "num", S: numGen.Draw(t, "num")}
			case 1:
				return &ref.ANode{Kind: "var", S: varGen.Draw(t, "var")}
			case 2:
				return &ref.ANode{Kind: "un", Op: rapid.SampledFrom(c11Unops).Draw(t, "unop"), A: treeGen(d-1).Draw(t, "a")}
			case 3:
				lv := varGen.Draw(t, "lv")
				if rapid.IntRange(0, 15).Draw(t, "nonlvalue") == 0 {
					lv = rapid.SampledFrom(c11NonLvalues).Draw(t, "nonlvalue_text")
				}
				return &ref.ANode{Kind: rapid.SampledFrom([]string{"preinc", "predec", "postinc", "postdec"}).Draw(t, "incdec"), S: lv}
			case 4:
				return &ref.ANode{Kind: "cond", A: treeGen(d-1).Draw(t, "a"), B: treeGen(d-1).Draw(t, "b"), C: treeGen(d-1).Draw(t, "c")}
			case 5:
				lv := varGen.Draw(t, "lv")
				if rapid.IntRange(0, 15).Draw(t, "nonlvalue") == 0 {
					lv = rapid.SampledFrom(c11NonLvalues).Draw(t, "nonlvalue_text")
				}
				return &ref.ANode{Kind: "asg", Op: rapid.SampledFrom(c11Asgops).Draw(t, "asgop"), S: lv, A: treeGen(d-1).Draw(t, "a")}
			default:
				return &ref.ANode{Kind: "bin", Op: rapid.SampledFrom(c11Binops).Draw(t, "binop"), A: treeGen(d-1).Draw(t, "a"), B: treeGen(d-1).Draw(t, "b")}
			}
		})
	}
	prop := func(rt *rapid.T) {
		d := rapid.IntRange(1, 4).Draw(rt, "depth")
		tr := treeGen(d).Draw(rt, "tree")
		path := rapid.SampledFrom([]string{"eval", "eval", "expand"}).Draw(rt, "path")
		toks := tr.Tokens(func() bool { return rapid.IntRange(0, 7).Draw(rt, "paren") == 0 })
		if path == "expand" {
			for i, tk := range toks {
				if (tk == "x" || tk == "y" || tk == "z" || tk == "x1") && (i+1 == len(toks) || !isAsgOrInc(toks[i+1])) && (i == 0 || !isAsgOrInc(toks[i-1])) {
					switch rapid.IntRange(0, 5).Draw(rt, "dollar") {
					case 0:
						toks[i] = "$" + tk
					case 1:
						toks[i] = "${" + tk + "}"
					}
				}
			}
		}
		blanks := []string{"", "", " ", "  ", "\t"}
		if path == "expand" {
			blanks = append(blanks, "\n")
		}
		src := ref.Join(toks, func() string { return rapid.SampledFrom(blanks).Draw(rt, "gap") })
		store := map[string]*string{}
		for _, v := range c11Vars {
			if rapid.IntRange(0, 6).Draw(rt, "unset") != 0 {
				store[v] = sp(rapid.SampledFrom(values).Draw(rt, "value"))
			} else {
				store[v] = nil
			}
		}
		c := c11Case{Tree: tr, Src: src, Store: store, Path: path, Opts: uint(rapid.SampledFrom([]interp.Option{0, 0, interp.NoUnset, interp.NoUnset | interp.AllExport}).Draw(rt, "opts"))}
		run(rt, c, true)
		f := tr.Features()
		st.Class(fmt.Sprintf("sampled_depth_%d", f.Depth))
		st.Sample(map[string]any{"src": c.Src, "store": storeString(c.Store), "path": c.Path})
	}
	runRapid(t, n, prop)
}

func isAsgOrInc(tok string) bool {
	if tok == "++" || tok == "--" {
		return true
	}
	for _, op := range c11Asgops {
		if tok == op {
			return true
		}
	}
	return false
}
