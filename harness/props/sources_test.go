package props

import (
	"bufio"
	"bytes"
	"fmt"
	"io"
	"strings"
	"testing/iotest"
	"unicode/utf8"
)

// Source kinds: the ways a source text can be handed to the parser. All of
// them keep to the contracts of io.Reader / io.RuneScanner.

// lenientScanner: UnreadRune after a failed read (end of input) steps back
// over the last rune read, which io.RuneScanner allows.
type lenientScanner struct {
	s    string
	off  int
	last int
}

func (c *lenientScanner) ReadRune() (rune, int, error) {
	if c.off >= len(c.s) {
		return 0, 0, io.EOF
	}
	r, w := utf8.DecodeRuneInString(c.s[c.off:])
	c.off += w
	c.last = w
	return r, w, nil
}

func (c *lenientScanner) UnreadRune() error {
	if c.last == 0 {
		return fmt.Errorf("nothing to unread")
	}
	c.off -= c.last
	c.last = 0
	return nil
}

// garbageScanner returns a rune other than 0 together with io.EOF: callers
// have to look at the error first.
type garbageScanner struct{ countingScanner }

func (c *garbageScanner) ReadRune() (rune, int, error) {
	r, w, err := c.countingScanner.ReadRune()
	if err != nil {
		return 'x', 0, err
	}
	return r, w, nil
}

// readerFunc is an io.Reader whose dynamic type is not comparable.
type readerFunc func([]byte) (int, error)

func (f readerFunc) Read(p []byte) (int, error) { return f(p) }

var (
	// scannerKinds implement io.RuneScanner and report how much they delivered.
	scannerKinds = []string{"strings.Reader", "bytes.Reader", "bytes.Buffer", "bufio.Reader", "counting", "lenient", "garbage"}
	// readerKinds are everything else ParseCommands accepts.
	readerKinds = []string{"string", "bytes", "func-reader", "onebyte-reader", "dataerr-reader"}
)

// mkSource returns the source and a function telling how many bytes of s
// have been consumed (-1 if that cannot be known).
func mkSource(kind, s string) (interface{}, func() int) {
	switch kind {
	case "bytes":
		return []byte(s), func() int { return -1 }
	case "strings.Reader":
		r := strings.NewReader(s)
		return r, func() int { return len(s) - r.Len() }
	case "bytes.Reader":
		r := bytes.NewReader([]byte(s))
		return r, func() int { return len(s) - r.Len() }
	case "bytes.Buffer":
		r := bytes.NewBufferString(s)
		return r, func() int { return len(s) - r.Len() }
	case "bufio.Reader":
		sr := strings.NewReader(s)
		r := bufio.NewReaderSize(sr, 16)
		return r, func() int { return len(s) - sr.Len() - r.Buffered() }
	case "counting":
		r := &countingScanner{s: s}
		return r, func() int { return r.off }
	case "lenient":
		r := &lenientScanner{s: s}
		return r, func() int { return r.off }
	case "garbage":
		r := &garbageScanner{countingScanner{s: s}}
		return r, func() int { return r.off }
	case "func-reader":
		sr := strings.NewReader(s)
		return readerFunc(sr.Read), func() int { return -1 }
	case "onebyte-reader":
		return iotest.OneByteReader(strings.NewReader(s)), func() int { return -1 }
	case "dataerr-reader":
		return iotest.DataErrReader(strings.NewReader(s)), func() int { return -1 }
	}
	return s, func() int { return -1 }
}
