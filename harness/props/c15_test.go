package props

import (
	"fmt"
	"os"
	"path/filepath"
	"strings"
	"testing"

	"github.com/hattya/go.sh/ast"
	"github.com/hattya/go.sh/interp"
	"github.com/hattya/go.sh/parser"
	"github.com/hattya/go.sh/pattern"
	"github.com/hattya/go.sh/printer"
	"pgregory.net/rapid"

	"verif/ref"
)

// C15 — quoted text survives parsing and expansion unchanged.

type c15Case struct {
	S     string `json:"s"`
	Quote string `json:"quote"` // single | double | backslash | mixed:<choices>
	Mode  uint   `json:"mode"`  // interp.ExpMode bits
	// Ctx: where in a command the word stands (see c15Contexts); "" = the
	// only argument of a command, at the end of the input.
	Ctx string `json:"ctx,omitempty"`
	// Opts: option bits of the environment (interp.Option), e.g. NoGlob.
	Opts uint `json:"opts,omitempty"`
}

// c15Contexts: source templates (%s = the quoted word) and how to find the
// word in the tree. The words "yy" that follow must stay words of their own.
var c15Contexts = map[string]struct {
	tmpl string
	find func(c ast.Command) (ast.Word, bool)
	// pre: unquoted text that the template puts directly in front of the
	// quoted word (the field is then pre + s)
	pre string
}{
	"arg_newline":   {"_ %s\n", func(c ast.Command) (ast.Word, bool) { return c15Arg(c, 2, 1) }, ""},
	"arg_then_word": {"_ %s yy\n", func(c ast.Command) (ast.Word, bool) { return c15Arg(c, 3, 1) }, ""},
	"command_name":  {"%s yy\n", func(c ast.Command) (ast.Word, bool) { return c15Arg(c, 2, 0) }, ""},
	"after_and": {"x && %s yy\n", func(c ast.Command) (ast.Word, bool) {
		if ao, ok := c.(*ast.AndOrList); ok && len(ao.List) == 1 && ao.List[0].Pipeline != nil {
			return c15Arg(ao.List[0].Pipeline.Cmd, 2, 0)
		}
		return nil, false
	}, ""},
	"after_and_newline": {"x &&\n%s\nyy\n", func(c ast.Command) (ast.Word, bool) {
		if ao, ok := c.(*ast.AndOrList); ok && len(ao.List) == 1 && ao.List[0].Pipeline != nil {
			return c15Arg(ao.List[0].Pipeline.Cmd, 1, 0)
		}
		return nil, false
	}, ""},
	"after_pipe": {"x | %s yy\n", func(c ast.Command) (ast.Word, bool) {
		if p, ok := c.(*ast.Pipeline); ok && len(p.List) == 1 {
			return c15Arg(p.List[0].Cmd, 2, 0)
		}
		return nil, false
	}, ""},
	"in_braces": {"{ %s yy; }\n", func(c ast.Command) (ast.Word, bool) {
		if cm, ok := c.(*ast.Cmd); ok {
			if g, ok := cm.Expr.(*ast.Group); ok && len(g.List) == 1 {
				in := g.List[0]
				if ao, ok := in.(*ast.AndOrList); ok && len(ao.List) == 0 {
					in = ao.Pipeline
				}
				if p, ok := in.(*ast.Pipeline); ok && len(p.List) == 0 {
					in = p.Cmd
				}
				return c15Arg(in, 2, 0)
			}
		}
		return nil, false
	}, ""},
	"case_word": {"case %s in yy) ;; esac\n", func(c ast.Command) (ast.Word, bool) {
		if cm, ok := c.(*ast.Cmd); ok {
			if cc, ok := cm.Expr.(*ast.CaseClause); ok && len(cc.Items) == 1 {
				return cc.Word, true
			}
		}
		return nil, false
	}, ""},
	"case_pattern": {"case x in %s) yy;; esac\n", func(c ast.Command) (ast.Word, bool) {
		if cm, ok := c.(*ast.Cmd); ok {
			if cc, ok := cm.Expr.(*ast.CaseClause); ok && len(cc.Items) == 1 && len(cc.Items[0].Patterns) == 1 {
				return cc.Items[0].Patterns[0], true
			}
		}
		return nil, false
	}, ""},
	"for_item": {"for i in %s yy\ndo x; done\n", func(c ast.Command) (ast.Word, bool) {
		if cm, ok := c.(*ast.Cmd); ok {
			if f, ok := cm.Expr.(*ast.ForClause); ok && len(f.Items) == 2 {
				return f.Items[0], true
			}
		}
		return nil, false
	}, ""},
	"redirection": {"_ >%s yy\n", func(c ast.Command) (ast.Word, bool) {
		if cm, ok := c.(*ast.Cmd); ok && len(cm.Redirs) == 1 {
			if sc, ok := cm.Expr.(*ast.SimpleCmd); ok && len(sc.Args) == 2 {
				return cm.Redirs[0].Word, true
			}
		}
		return nil, false
	}, ""},
	"in_substitution": {"_ $(_ %s yy) zz\n", func(c ast.Command) (ast.Word, bool) {
		if w, ok := c15Arg(c, 3, 1); ok && len(w) == 1 {
			if cs, ok := w[0].(*ast.CmdSubst); ok && len(cs.List) == 1 {
				return c15Arg(cs.List[0], 3, 1)
			}
		}
		return nil, false
	}, ""},
	// the command inside a substitution is not double-quoted text, wherever the substitution stands
	"in_dquoted_substitution": {"_ \"a $(_ %s yy) b\" zz\n", func(c ast.Command) (ast.Word, bool) {
		if w, ok := c15Arg(c, 3, 1); ok && len(w) == 1 {
			if q, ok := w[0].(*ast.Quote); ok && len(q.Value) == 3 {
				if cs, ok := q.Value[1].(*ast.CmdSubst); ok && len(cs.List) == 1 {
					return c15Arg(cs.List[0], 3, 1)
				}
			}
		}
		return nil, false
	}, ""},
	"in_heredoc_substitution": {"cat <<E\n$(_ %s yy)\nE\n", func(c ast.Command) (ast.Word, bool) {
		if cm, ok := c.(*ast.Cmd); ok && len(cm.Redirs) == 1 && len(cm.Redirs[0].Heredoc) >= 1 {
			if cs, ok := cm.Redirs[0].Heredoc[0].(*ast.CmdSubst); ok && len(cs.List) == 1 {
				return c15Arg(cs.List[0], 3, 1)
			}
		}
		return nil, false
	}, ""},
	"in_dquoted_backquotes": {"_ \"`_ %s yy`\" zz\n", func(c ast.Command) (ast.Word, bool) {
		if w, ok := c15Arg(c, 3, 1); ok && len(w) == 1 {
			if q, ok := w[0].(*ast.Quote); ok && len(q.Value) == 1 {
				if cs, ok := q.Value[0].(*ast.CmdSubst); ok && len(cs.List) == 1 {
					return c15Arg(cs.List[0], 3, 1)
				}
			}
		}
		return nil, false
	}, ""},
	// behind a here-document with an unquoted delimiter, inside the same command
	"after_heredoc_in_group": {"{ cat <<E\nbody $x\nE\n_ %s yy\n}\n", func(c ast.Command) (ast.Word, bool) {
		if cm, ok := c.(*ast.Cmd); ok {
			if g, ok := cm.Expr.(*ast.Group); ok && len(g.List) == 2 {
				return c15Arg(g.List[1], 3, 1)
			}
		}
		return nil, false
	}, ""},
	"after_heredoc_in_and_or": {"cat <<E <<-F &&\nbody\nE\n\tf $(c)\n\tF\n_ %s yy\n", func(c ast.Command) (ast.Word, bool) {
		if ao, ok := c.(*ast.AndOrList); ok && len(ao.List) == 1 && ao.List[0].Pipeline != nil {
			return c15Arg(ao.List[0].Pipeline.Cmd, 3, 1)
		}
		return nil, false
	}, ""},
	// digits, then the quoted text, then a redirection operator without a blank: one word, no io-number
	"digits_then_quoted_before_redirection": {"_ 7%s>f yy\n", func(c ast.Command) (ast.Word, bool) {
		if cm, ok := c.(*ast.Cmd); ok && len(cm.Redirs) == 1 && cm.Redirs[0].N == nil {
			if sc, ok := cm.Expr.(*ast.SimpleCmd); ok && len(sc.Args) == 3 {
				return sc.Args[1], true
			}
		}
		return nil, false
	}, "7"},
	"digits_then_quoted_before_dup": {"_ 12%s<&3 yy\n", func(c ast.Command) (ast.Word, bool) {
		if cm, ok := c.(*ast.Cmd); ok && len(cm.Redirs) == 1 && cm.Redirs[0].N == nil {
			if sc, ok := cm.Expr.(*ast.SimpleCmd); ok && len(sc.Args) == 3 {
				return sc.Args[1], true
			}
		}
		return nil, false
	}, "12"},
}

var c15CtxNames = []string{"arg_newline", "arg_then_word", "command_name", "after_and", "after_and_newline", "after_pipe", "in_braces", "case_word", "case_pattern", "for_item", "redirection", "in_substitution", "in_dquoted_substitution", "in_heredoc_substitution", "in_dquoted_backquotes", "after_heredoc_in_group", "after_heredoc_in_and_or", "digits_then_quoted_before_redirection", "digits_then_quoted_before_dup"}

// c15Arg returns word i of a simple command of exactly n words.
func c15Arg(c ast.Command, n, i int) (ast.Word, bool) {
	cm, ok := c.(*ast.Cmd)
	if !ok {
		return nil, false
	}
	sc, ok := cm.Expr.(*ast.SimpleCmd)
	if !ok || len(sc.Assigns) != 0 || len(sc.Args) != n {
		return nil, false
	}
	return sc.Args[i], true
}

// quote writes s under the given quoting; ok=false if that quoting cannot
// spell s.
func c15Quote(s, how string) (string, bool) {
	switch {
	case how == "single":
		if strings.Contains(s, "'") {
			return "", false
		}
		return "'" + s + "'", true
	case how == "double":
		var b strings.Builder
		b.WriteByte('"')
		for _, r := range s {
			if strings.ContainsRune("$`\"\\", r) {
				b.WriteByte('\\')
			}
			b.WriteRune(r)
		}
		b.WriteByte('"')
		return b.String(), true
	case how == "backslash":
		if strings.Contains(s, "\n") || s == "" {
			return "", false
		}
		var b strings.Builder
		for _, r := range s {
			b.WriteByte('\\')
			b.WriteRune(r)
		}
		return b.String(), true
	case how == "param-single" || how == "param-double" || how == "param-backslash":
		// the quoted text as the default of a parameter that is never set
		// (only where the expansion itself is not inside double-quotes: there
		// the word would be double-quoted text)
		q, ok := c15Quote(s, strings.TrimPrefix(how, "param-"))
		if !ok || strings.Contains(s, "}") && how == "param-backslash" {
			return "", false
		}
		return "${c15_never_set-" + q + "}", true
	case strings.HasPrefix(how, "word:"):
		// the quoted text as the word of one of the expansions that use their
		// word: word:<parameter and operator>:<quoting>. c15_set has a value,
		// c15_null is set to the empty string, c15_never_set is not set.
		f := strings.SplitN(how, ":", 3)
		if len(f) != 3 {
			return "", false
		}
		head, ok := c15WordOps[f[1]]
		if !ok {
			return "", false
		}
		q, ok := c15Quote(s, f[2])
		if !ok || strings.Contains(s, "}") && f[2] == "backslash" {
			return "", false
		}
		return "${" + head + q + "}", true
	case strings.HasPrefix(how, "mixed:"):
		choices := how[6:]
		if s == "" {
			return `""`, true
		}
		var b strings.Builder
		i := 0
		for _, r := range s {
			c := byte('0')
			if i < len(choices) {
				c = choices[i]
			}
			i++
			switch {
			case c == '0' && r != '\'':
				b.WriteString("'" + string(r) + "'")
			case c == '1' && r != '\n':
				b.WriteString(`\` + string(r))
			default:
				q, _ := c15Quote(string(r), "double")
				b.WriteString(q)
			}
		}
		return b.String(), true
	}
	return "", false
}

// c15WordOps: the expansions whose result is their word, given the state of
// the parameter.
var c15WordOps = map[string]string{
	"unset-":   "c15_never_set-",
	"unsetc-":  "c15_never_set:-",
	"nullc-":   "c15_null:-",
	"set+":     "c15_set+",
	"setc+":    "c15_set:+",
	"null+":    "c15_null+",
	"pos+":     "1+",
	"special+": "#:+",
}

var c15WordOpNames = []string{"unset-", "unsetc-", "nullc-", "set+", "setc+", "null+", "pos+", "special+"}

var c15Env = func() *interp.ExecEnv {
	e := interp.NewExecEnv("sh", "pos one", "*", "b")
	e.Set("HOME", "/home/c15")
	e.Set("a", "VALUE_OF_a")
	e.Set("b", "VALUE OF b")
	e.Set("c15_set", "* value")
	e.Set("c15_null", "")
	return e
}()

func checkC15(c c15Case) error {
	q, ok := c15Quote(c.S, c.Quote)
	if !ok {
		return nil
	}
	src := "_ " + q
	find := func(c ast.Command) (ast.Word, bool) { return c15Arg(c, 2, 1) }
	// S: the field that has to come out (the quoted text, behind the
	// unquoted text some contexts put in front of it)
	S := c.S
	if c.Ctx != "" {
		cx, ok := c15Contexts[c.Ctx]
		if !ok {
			return fmt.Errorf("harness: unknown context %q", c.Ctx)
		}
		src, find = fmt.Sprintf(cx.tmpl, q), cx.find
		S = cx.pre + c.S
		if cx.pre != "" && strings.HasPrefix(c.Quote, "word:") || cx.pre != "" && strings.HasPrefix(c.Quote, "param-") {
			return nil // digits glued to "${" would be another parameter
		}
	}
	cmd, _, err := parser.ParseCommand("c15", src)
	if err != nil {
		return fmt.Errorf("the quoted form %q of %q is rejected in %q: %v", q, c.S, src, err)
	}
	word, ok := find(cmd)
	if !ok {
		var b strings.Builder
		printer.Fprint(&b, cmd)
		return fmt.Errorf("the quoted form %q of %q is not parsed as one word of %q (the command reads %q)", q, c.S, src, b.String())
	}
	sc := &ast.SimpleCmd{Args: []ast.Word{nil, word}}
	env := c15Env
	// an adversarial IFS: every character of s, plus the usual ones
	ifs := c.S + " \t\nab"
	if pre := strings.TrimSuffix(S, c.S); pre != "" {
		// (the unquoted text in front of the word is not to be cut)
		ifs = strings.Map(func(r rune) rune {
			if strings.ContainsRune(pre, r) {
				return -1
			}
			return r
		}, ifs)
	}
	env.Set("IFS", ifs)
	mode := interp.ExpMode(c.Mode)
	opts := env.Opts
	env.Opts = interp.Option(c.Opts)
	defer func() { env.Opts = opts }()
	var got []string
	var gerr error
	if e := guard(func() error { got, gerr = env.Expand(sc.Args[1], mode); return nil }); e != nil {
		return fmt.Errorf("Expand(%s, mode %d) %v", q, c.Mode, e)
	}
	if gerr != nil {
		return fmt.Errorf("Expand(%s, mode %d): error %v", q, c.Mode, gerr)
	}
	if len(got) != 1 {
		return fmt.Errorf("Expand(%s, mode %d) = %q, want exactly the one field %q", q, c.Mode, got, S)
	}
	if mode&interp.Pattern == 0 {
		if got[0] != S {
			return fmt.Errorf("Expand(%s, mode %d) = %q, want %q", q, c.Mode, got[0], S)
		}
		return nil
	}
	// Pattern mode: the result must match s and only s
	p := got[0]
	cands := []string{S, "", S + "x"}
	rs := []rune(S)
	for i := range rs {
		for _, alt := range []rune{'x', 'a', '*'} {
			if rs[i] != alt {
				v := append(append([]rune{}, rs[:i]...), alt)
				v = append(v, rs[i+1:]...)
				cands = append(cands, string(v))
				break
			}
		}
		cands = append(cands, string(append(append([]rune{}, rs[:i]...), rs[i+1:]...)))
	}
	pt, perr := ref.ParsePattern(p)
	for _, cand := range cands {
		want := cand == S
		if perr == nil {
			if pt.Whole([]rune(cand)) != want {
				return fmt.Errorf("Expand(%s, Pattern) = %q: as a pattern it matches %q = %v (reference matcher), want %v", q, p, cand, !want, want)
			}
		}
		m, merr := pattern.Match([]string{p}, pattern.Prefix|pattern.Largest, cand)
		matched := merr == nil && m == cand
		if merr != nil && merr != pattern.NoMatch {
			return fmt.Errorf("Expand(%s, Pattern) = %q: Match reports %v", q, p, merr)
		}
		if matched != want {
			return fmt.Errorf("Expand(%s, Pattern) = %q: Match against %q = %v, want %v", q, p, cand, matched, want)
		}
	}
	return nil
}

// c15Dir creates the adversarial working directory and enters it.
func c15Dir(name string) (leave func(), err error) {
	cwd := filepath.Join(outDir(), name)
	os.MkdirAll(filepath.Join(cwd, "d"), 0o755)
	for _, f := range []string{"a", "b", "ab", "*", "?", "[", "a b", "é", "~", "-", ".", "d/a", "$a", `\`, "a\\",
		// names that are not valid UTF-8: a decoder reads each of their bytes as U+FFFD
		"\xff", "a\xffb", "\x80", "\xff\xff"} {
		os.WriteFile(filepath.Join(cwd, f), nil, 0o644)
	}
	wd, _ := os.Getwd()
	if err := os.Chdir(cwd); err != nil {
		return nil, err
	}
	return func() { os.Chdir(wd); os.RemoveAll(cwd) }, nil
}

// c15WithFile runs the case with a file named like s present.
func c15WithFile(c c15Case) error {
	made := ""
	if c.S != "" && c.S != "." && c.S != ".." && !strings.ContainsAny(c.S, "/\x00") && len(c.S) < 100 {
		if _, err := os.Lstat(c.S); err != nil {
			if os.WriteFile(c.S, nil, 0o644) == nil {
				made = c.S
			}
		}
	}
	err := checkC15(c)
	if made != "" {
		os.Remove(made)
	}
	return err
}

// c15Embedded: quoted text inside an unquoted pattern context. Pre and Post
// are unquoted pattern text (e.g. "[a" and "z]"); the word Pre+Q(S)+Post,
// expanded in Pattern mode, must match exactly what the pattern
// Pre + S with every character escaped + Post matches.
type c15Embedded struct {
	Pre   string `json:"pre"`
	S     string `json:"s"`
	Quote string `json:"quote"`
	Post  string `json:"post"`
	// PreVars: unquoted pattern text in front of Pre that comes out of
	// expansions, one variable per element ($c15v0$c15v1...). Together the
	// values end in an even number of backslashes, so that what they mean
	// does not depend on the quoted text that follows.
	PreVars []string `json:"pre_vars,omitempty"`
}

func checkC15Embedded(c c15Embedded) error {
	q, ok := c15Quote(c.S, c.Quote)
	if !ok {
		return nil
	}
	src := "_ "
	for i := range c.PreVars {
		src += fmt.Sprintf("${c15v%d}", i)
	}
	src += c.Pre + q + c.Post
	cmd, _, err := parser.ParseCommand("c15", src)
	if err != nil {
		return nil // this context cannot be written like that
	}
	sc, ok := cmd.(*ast.Cmd).Expr.(*ast.SimpleCmd)
	if !ok || len(sc.Args) != 2 {
		return nil
	}
	var esc strings.Builder
	for _, r := range c.S {
		esc.WriteByte('\\')
		esc.WriteRune(r)
	}
	want, err := ref.ParsePattern(strings.Join(c.PreVars, "") + c.Pre + esc.String() + c.Post)
	if err != nil {
		return nil // not a well-formed pattern (or beyond the reference): nothing to compare
	}
	env := interp.NewExecEnv("sh")
	env.Opts |= interp.NoGlob
	for i, v := range c.PreVars {
		env.Set(fmt.Sprintf("c15v%d", i), v)
	}
	var got []string
	var gerr error
	if e := guard(func() error { got, gerr = env.Expand(sc.Args[1], interp.Pattern); return nil }); e != nil {
		return fmt.Errorf("Expand(%s, Pattern) %v", src[2:], e)
	}
	if gerr != nil || len(got) != 1 {
		return fmt.Errorf("Expand(%s, Pattern) = %q, %v; want one pattern", src[2:], got, gerr)
	}
	subjects := []string{"", "a", "z", "m", "x", "-", "!", "^", "]", "[", "\\", "*", "?", c.S, "a" + c.S, c.S + "z", "a" + c.S + "z", "am", "b",
		":", "=", ".", "a]", ":]", "=]", ".]", "[]", "a:]", "[a]", "[:alpha:]", "\\" + c.S, "\\\\" + c.S, "\\xyz", "\\\\xyz", "a\\" + c.S, "\\a" + c.S}
	for _, r := range c.S {
		subjects = append(subjects, string(r), "a"+string(r), string(r)+"z")
	}
	for _, subj := range subjects {
		m, merr := pattern.Match([]string{got[0]}, pattern.Prefix|pattern.Largest, subj)
		if merr != nil && merr != pattern.NoMatch {
			return fmt.Errorf("Expand(%s, Pattern) = %q: Match reports %v", src[2:], got[0], merr)
		}
		matched := merr == nil && m == subj
		if w := want.Whole([]rune(subj)); matched != w {
			return fmt.Errorf("Expand(%s, Pattern) = %q matches %q = %v; the quoted part is literal text, so it has to be %v", src[2:], got[0], subj, matched, w)
		}
	}
	return nil
}

// c15Removal: the library's own consumer of quoted pattern text. With v =
// Pre + S, removing the quoted S as a suffix leaves Pre; with v = S + Pre,
// removing it as a prefix leaves Pre (the text matches itself and nothing
// shorter or longer, so the smallest and the largest match are the same).
type c15Removal struct {
	S     string `json:"s"`
	Quote string `json:"quote"`
	Op    string `json:"op"` // % %% # ##
	DQ    bool   `json:"dq"` // the whole expansion stands in double-quotes
}

func checkC15Removal(c c15Removal) error {
	q, ok := c15Quote(c.S, c.Quote)
	if !ok {
		return nil
	}
	const rest = "pre.X"
	v := rest + c.S
	if c.Op[0] == '#' {
		v = c.S + rest
	}
	w := "${v" + c.Op + q + "}"
	if c.DQ {
		w = `"` + w + `"`
	}
	cmd, _, err := parser.ParseCommand("c15", "_ "+w)
	if err != nil {
		return fmt.Errorf("%s is rejected: %v", w, err)
	}
	word, ok := c15Arg(cmd, 2, 1)
	if !ok {
		return fmt.Errorf("%s is not parsed as one word", w)
	}
	env := interp.NewExecEnv("sh")
	env.Opts |= interp.NoGlob
	env.Set("IFS", "")
	env.Set("v", v)
	env.Set("c15_set", "* value")
	env.Set("c15_null", "")
	env.Args = append(env.Args[:1:1], "pos one")
	var got []string
	var gerr error
	if e := guard(func() error { got, gerr = env.Expand(word, 0); return nil }); e != nil {
		return fmt.Errorf("Expand(%s) with v=%q %v", w, v, e)
	}
	if gerr != nil || len(got) != 1 || got[0] != rest {
		return fmt.Errorf("Expand(%s) with v=%q = %q, %v; the quoted text matches itself, so %q is left", w, v, got, gerr, rest)
	}
	// and it matches nothing else: a value that does not end (begin) with S stays
	other := rest + "q"
	if c.S != "" && !strings.HasSuffix(other, c.S) && !strings.HasPrefix(other, c.S) {
		env.Set("v", other)
		if e := guard(func() error { got, gerr = env.Expand(word, 0); return nil }); e != nil {
			return fmt.Errorf("Expand(%s) with v=%q %v", w, other, e)
		}
		if gerr != nil || len(got) != 1 || got[0] != other {
			return fmt.Errorf("Expand(%s) with v=%q = %q, %v; the quoted text does not occur there, so the value stays", w, other, got, gerr)
		}
	}
	return nil
}

func init() {
	reg("C15", "removal", checkC15Removal)
	reg("C15", "embedded", checkC15Embedded)
	reg("C15", "quoted", func(c c15Case) error {
		leave, err := c15Dir("c15-replay")
		if err != nil {
			return fmt.Errorf("replay file: cannot enter scratch directory: %v", err)
		}
		defer leave()
		return c15WithFile(c)
	})
}

var c15Modes = []uint{0, uint(interp.Arith), uint(interp.Assign), uint(interp.Literal), uint(interp.Pattern), uint(interp.Quote), uint(interp.Assign | interp.Quote)}

var c15Alpha = []string{"'", `"`, `\`, "$", "`", "*", "?", "[", "]", "~", "#", "&", ";", "|", "<", ">", "(", ")", "{", "}", "!", "=", " ", "\t", "\n", "a", "b", "/", ":", "-", ".", "é", "\r", "^", "\uFFFD"}

func TestC15(t *testing.T) {
	st := newStats("C15")
	defer st.Write()
	sh, nsh := shard()

	leave, err := c15Dir(fmt.Sprintf("c15-cwd-%d", sh))
	if err != nil {
		t.Fatalf("INFRA: %v", err)
	}
	defer leave()

	special := func(s string) bool { return strings.ContainsAny(s, "'\"\\$`*?[]~#&;|<>(){}!= \t\n") }
	run := func(tt fataler, c c15Case, rapidCase bool) {
		if _, ok := c15Quote(c.S, c.Quote); !ok {
			return
		}
		err := c15WithFile(c)
		if err != nil {
			fail(tt, "C15", "quoted", c, "%v", err)
		}
		if c.Ctx != "" {
			st.Class("context_" + c.Ctx)
		}
		if rapidCase {
			st.Eval(special(c.S), c.S, c.Quote, fmt.Sprint(c.Mode), c.Ctx)
		} else if special(c.S) {
			st.EvalN(1, 1)
		} else {
			st.EvalN(1, 0)
		}
		st.Class("quoting_" + strings.SplitN(c.Quote, ":", 2)[0])
		if strings.HasPrefix(c.Quote, "word:") {
			st.Class("word_of_" + strings.SplitN(c.Quote, ":", 3)[1])
		}
		if c.Opts != 0 {
			st.Class("option_noglob")
		}
	}

	maxn := 3
	if thorough() {
		maxn = 4
	}
	idx := 0
	for n := 0; n <= maxn; n++ {
		words(c15Alpha, n, func(s string) {
			idx++
			if idx%nsh != sh {
				return
			}
			for qi, how := range []string{"single", "double", "backslash", "mixed:" + fmt.Sprintf("%03d", idx%1000), []string{"param-single", "param-double", "param-backslash"}[idx%3],
				"word:" + c15WordOpNames[idx%len(c15WordOpNames)] + ":" + []string{"single", "double", "backslash"}[(idx/len(c15WordOpNames))%3]} {
				if strings.HasPrefix(how, "mixed:") {
					// a mix derived from the index: digits 0,1,2 select ', \ and "
					how = "mixed:" + strings.Map(func(r rune) rune { return '0' + (r-'0')%3 }, fmt.Sprintf("%04d", idx%10000))
				}
				for mi, m := range c15Modes {
					// (with and without the option that turns pathname expansion off)
					run(t, c15Case{S: s, Quote: how, Mode: m, Opts: uint(interp.NoGlob) * uint((idx+qi+mi)%2)}, false)
					// the same word elsewhere in a command
					run(t, c15Case{S: s, Quote: how, Mode: m, Ctx: c15CtxNames[(idx+qi+mi)%len(c15CtxNames)], Opts: uint(interp.NoGlob) * uint((idx+qi+mi+1)%2)}, false)
				}
				if n <= 2 {
					for _, cx := range c15CtxNames {
						run(t, c15Case{S: s, Quote: how, Mode: c15Modes[(idx+qi)%len(c15Modes)], Ctx: cx}, false)
					}
					for oi, op := range []string{"%", "%%", "#", "##"} {
						rc := c15Removal{S: s, Quote: how, Op: op, DQ: (idx+oi)%2 == 0}
						if err := checkC15Removal(rc); err != nil {
							fail(t, "C15", "removal", rc, "%v", err)
						}
						st.EvalN(1, 1)
						st.Class("removal_of_the_quoted_text")
					}
				}
				if idx%20011 == 0 && qi == 0 {
					st.Sample(map[string]any{"s": s, "quote": how, "modes": "all"})
				}
			}
		})
	}
	st.Exhaustive = true
	st.Note("exhaustive: every string of <= %d symbols over %d symbols (all shell special characters, blank, tab, newline, a, b, /, :, -, ., é) x {single quotes, double quotes with escapes, a backslash before each character, a per-character mix} x 7 expansion modes, with IFS = the string's own characters plus blanks and letters, HOME and positional parameters set, and a working directory holding files named like the string and like glob expansions of it", maxn, len(c15Alpha))

	// quoted text inside unquoted pattern contexts
	{
		ctxs := [][2]string{{"[a", "z]"}, {"[", "]"}, {"[!", "x]"}, {"[", "a]"}, {"[a", "]"}, {"*", "*"}, {"?", ""}, {"", "*"}, {"[a-", "]"}, {"[", "-z]"}, {"a", "z"}, {"[[:alpha:]", "]"},
			// the quoted text where the opener or the closer of a class, an equivalence class or a collating symbol would stand
			{"[[", "alpha:]]"}, {"[[:alpha", "]]"}, {"[[", "a=]]"}, {"[[=a", "]]"}, {"[[", "a.]]"}, {"[[.a", "]]"}, {"[", "alpha:]"}, {"[[", "]"}}
		k := 0
		for n := 1; n <= 2; n++ {
			words([]string{"-", "!", "^", "]", "[", `\`, "*", "?", "a", "m", ".", ":", "="}, n, func(q string) {
				for _, ctx := range ctxs {
					for _, how := range []string{"single", "double", "backslash"} {
						k++
						if k%nsh != sh {
							continue
						}
						c := c15Embedded{Pre: ctx[0], S: q, Quote: how, Post: ctx[1]}
						if err := checkC15Embedded(c); err != nil {
							fail(t, "C15", "embedded", c, "%v", err)
						}
						st.EvalN(1, 1)
						st.Class("quoted_text_inside_a_pattern")
					}
				}
			})
		}
		// unquoted backslashes out of expansions in front of the quoted text
		var pre []string
		var recPre func(depth int)
		recPre = func(depth int) {
			if len(pre) > 0 {
				all := strings.Join(pre, "")
				if (len(all)-len(strings.TrimRight(all, `\`)))%2 == 0 && strings.Contains(all, `\`) {
					for _, q := range []string{"*", "?", "[", "a", `\`, "]", "*a"} {
						for _, how := range []string{"single", "double", "backslash"} {
							k++
							if k%nsh != sh {
								continue
							}
							c := c15Embedded{PreVars: append([]string{}, pre...), S: q, Quote: how, Post: []string{"", "*", "z"}[k%3]}
							if err := checkC15Embedded(c); err != nil {
								fail(t, "C15", "embedded", c, "%v", err)
							}
							st.EvalN(1, 1)
							st.Class("quoted_text_behind_backslashes_out_of_expansions")
						}
					}
				}
			}
			if depth == 3 {
				return
			}
			for _, v := range []string{`\`, `\\`, "a", `a\`, `\a`, "*"} {
				pre = append(pre, v)
				recPre(depth + 1)
				pre = pre[:len(pre)-1]
			}
		}
		recPre(0)
		st.Note("quoted text inside unquoted pattern contexts: every string of <= 2 symbols over {- ! ^ ] [ \\ * ? a m . :} x 3 quotings x %d contexts (bracket expressions, ranges, negation, wildcards), compared with the reference matcher on the pattern with the quoted part escaped", len(ctxs))
	}

	n := 30000
	if thorough() {
		n = 1000000
	}
	n /= nsh
	pool := append(append([]string{}, c15Alpha...), "\uFFFD", "\r", "\u00a0", "e\u0301", "\U0001F600", "\u0080", "\f", "日", "x", "ab", "$a", "${b}", "$(c)", "`c`", "$((1))", "~/", "*/", "[a-b]", `\n`, "''", `""`)
	prop := func(rt *rapid.T) {
		s := strings.Join(rapid.SliceOfN(rapid.SampledFrom(pool), 0, 12).Draw(rt, "s"), "")
		how := rapid.SampledFrom([]string{"single", "double", "backslash", "mixed", "param-single", "param-double", "param-backslash", "word", "word"}).Draw(rt, "quote")
		if how == "word" {
			how = "word:" + rapid.SampledFrom(c15WordOpNames).Draw(rt, "wordop") + ":" + rapid.SampledFrom([]string{"single", "double", "backslash"}).Draw(rt, "wordquote")
		}
		if how == "mixed" {
			var b strings.Builder
			for range []rune(s) {
				b.WriteByte(byte('0' + rapid.IntRange(0, 2).Draw(rt, "mix")))
			}
			how = "mixed:" + b.String()
		}
		m := rapid.SampledFrom(c15Modes).Draw(rt, "mode")
		c := c15Case{S: s, Quote: how, Mode: m}
		if rapid.Bool().Draw(rt, "noglob") {
			c.Opts = uint(interp.NoGlob)
		}
		if rapid.Bool().Draw(rt, "in_context") {
			c.Ctx = rapid.SampledFrom(c15CtxNames).Draw(rt, "ctx")
		}
		run(rt, c, true)
		if len(s) < 40 && rapid.IntRange(0, 3).Draw(rt, "removal") == 0 {
			rc := c15Removal{S: s, Quote: how, Op: rapid.SampledFrom([]string{"%", "%%", "#", "##"}).Draw(rt, "rmop"), DQ: rapid.Bool().Draw(rt, "rmdq")}
			if err := checkC15Removal(rc); err != nil {
				fail(rt, "C15", "removal", rc, "%v", err)
			}
			st.Class("removal_of_the_quoted_text")
		}
		st.Sample(c)
	}
	runRapid(t, n, prop)
}
