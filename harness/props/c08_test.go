package props

import (
	"fmt"
	"sort"
	"strings"
	"testing"

	"github.com/hattya/go.sh/ast"
	"github.com/hattya/go.sh/parser"
	"pgregory.net/rapid"

	"verif/gen"
	"verif/oracle"
	"verif/skel"
)

// C08 — here-document bodies are attached to the right redirection, verbatim.

type c08HD struct {
	Op       string   `json:"op"`
	WordSkel string   `json:"word"`   // skeleton of the delimiter word
	BodySkel []string `json:"parts"`  // merged parts of the body
	Body     string   `json:"body"`   // body text
	Delim    string   `json:"delim"`  // delimiter line (with leading tabs for <<-)
	Quoted   bool     `json:"quoted"` // some part of the delimiter word was quoted
}

type c08Case struct {
	Src string  `json:"src"`
	HDs []c08HD `json:"heredocs"` // in source order
}

// heredocRedirs collects the here-document redirections of a tree.
func heredocRedirs(cmds []ast.Command) []*ast.Redir {
	var out []*ast.Redir
	var word func(w ast.Word)
	var command func(c ast.Command)
	commands := func(cs []ast.Command) {
		for _, c := range cs {
			command(c)
		}
	}
	redir := func(r *ast.Redir) {
		if r.Op == "<<" || r.Op == "<<-" {
			out = append(out, r)
		}
		word(r.Word)
		word(r.Heredoc)
	}
	word = func(w ast.Word) {
		for _, p := range w {
			switch p := p.(type) {
			case *ast.Quote:
				word(p.Value)
			case *ast.ParamExp:
				word(p.Word)
			case *ast.CmdSubst:
				commands(p.List)
			case *ast.ArithExp:
				word(p.Expr)
			}
		}
	}
	cmd := func(c *ast.Cmd) {
		switch x := c.Expr.(type) {
		case *ast.SimpleCmd:
			for _, a := range x.Assigns {
				word(a.Value)
			}
			for _, a := range x.Args {
				word(a)
			}
		case *ast.Subshell:
			commands(x.List)
		case *ast.Group:
			commands(x.List)
		case *ast.ArithEval:
			word(x.Expr)
		case *ast.ForClause:
			for _, w := range x.Items {
				word(w)
			}
			commands(x.List)
		case *ast.CaseClause:
			word(x.Word)
			for _, it := range x.Items {
				for _, p := range it.Patterns {
					word(p)
				}
				commands(it.List)
			}
		case *ast.IfClause:
			commands(x.Cond)
			commands(x.List)
			for _, e := range x.Else {
				switch e := e.(type) {
				case *ast.ElifClause:
					commands(e.Cond)
					commands(e.List)
				case *ast.ElseClause:
					commands(e.List)
				}
			}
		case *ast.WhileClause:
			commands(x.Cond)
			commands(x.List)
		case *ast.UntilClause:
			commands(x.Cond)
			commands(x.List)
		case *ast.FuncDef:
			command(x.Body)
		}
		for _, r := range c.Redirs {
			redir(r)
		}
	}
	pipeline := func(p *ast.Pipeline) {
		cmd(p.Cmd)
		for _, q := range p.List {
			cmd(q.Cmd)
		}
	}
	andOr := func(a *ast.AndOrList) {
		pipeline(a.Pipeline)
		for _, q := range a.List {
			pipeline(q.Pipeline)
		}
	}
	command = func(c ast.Command) {
		switch c := c.(type) {
		case ast.List:
			for _, a := range c {
				andOr(a)
			}
		case *ast.AndOrList:
			andOr(c)
		case *ast.Pipeline:
			pipeline(c)
		case *ast.Cmd:
			cmd(c)
		}
	}
	commands(cmds)
	sort.SliceStable(out, func(i, j int) bool { return out[i].OpPos.Before(out[j].OpPos) })
	return out
}

// respell writes a here-document body back as text. The generator only emits
// canonical spellings, so the result has to equal the generated body.
func respell(w ast.Word) string {
	var b strings.Builder
	var cmds func(cs []ast.Command)
	cmds = func(cs []ast.Command) {
		for i, c := range cs {
			if i > 0 {
				b.WriteString("; ")
			}
			if c, ok := c.(*ast.Cmd); ok {
				if sc, ok := c.Expr.(*ast.SimpleCmd); ok {
					for j, a := range sc.Args {
						if j > 0 {
							b.WriteString(" ")
						}
						b.WriteString(respell(a))
					}
					continue
				}
			}
			b.WriteString("<unexpected command>")
		}
	}
	for _, p := range w {
		switch p := p.(type) {
		case *ast.Lit:
			b.WriteString(p.Value)
		case *ast.Quote:
			if p.Tok == `\` {
				b.WriteString(`\` + respell(p.Value))
			} else {
				b.WriteString(p.Tok + respell(p.Value) + p.Tok)
			}
		case *ast.ParamExp:
			if !p.Braces {
				b.WriteString("$" + p.Name.Value)
			} else if p.Op == "#" && p.Word == nil {
				b.WriteString("${#" + p.Name.Value + "}")
			} else {
				b.WriteString("${" + p.Name.Value + p.Op + respell(p.Word) + "}")
			}
		case *ast.CmdSubst:
			if p.Dollar {
				b.WriteString("$(")
				cmds(p.List)
				b.WriteString(")")
			} else {
				b.WriteString("`")
				cmds(p.List)
				b.WriteString("`")
			}
		case *ast.ArithExp:
			b.WriteString("$((" + respell(p.Expr) + "))")
		}
	}
	return b.String()
}

func literalOnly(w ast.Word) bool {
	for _, p := range w {
		if _, ok := p.(*ast.Lit); !ok {
			return false
		}
	}
	return true
}

func checkC08(c c08Case) error {
	cmds, _, err := parser.ParseCommands(nil, "c08", c.Src)
	if err != nil && strings.Contains(err.Error(), "here-document") {
		// every generated here-document has its delimiter line: a complaint
		// about one means a delimiter line was not recognised
		return fmt.Errorf("a here-document of a well-formed command is not recognised: %v\nsrc: %q", err, c.Src)
	}
	if err != nil {
		return fmt.Errorf("harness: source not accepted: %v\nsrc: %q", err, c.Src)
	}
	rs := heredocRedirs(cmds)
	if len(rs) != len(c.HDs) {
		return fmt.Errorf("%d here-document redirections in the tree, %d in the source\nsrc: %q", len(rs), len(c.HDs), c.Src)
	}
	for i, r := range rs {
		h := c.HDs[i]
		where := fmt.Sprintf("here-document %d of %d (%s %s)", i+1, len(rs), h.Op, h.Delim)
		if r.Op != h.Op {
			return fmt.Errorf("%s: operator %q\nsrc: %q", where, r.Op, c.Src)
		}
		if got := oracle.Word(r.Word, oracle.Exact); got != h.WordSkel {
			return fmt.Errorf("%s: delimiter word %s, want %s\nsrc: %q", where, got, h.WordSkel, c.Src)
		}
		if r.Heredoc == nil || r.Delim == nil {
			return fmt.Errorf("%s: no body / delimiter attached\nsrc: %q", where, c.Src)
		}
		wantBody := h.Body
		if !h.Quoted {
			// in an expanding here-document a backslash-newline is a line continuation
			wantBody = strings.ReplaceAll(wantBody, "cont\\\n", "cont")
			// the newlines inside a substitution are layout of the substitution
			// (respell writes it on one line; the tree is compared below)
			wantBody = strings.NewReplacer("$(\nc\n)", "$(c)", "`\nc\n`", "`c`", "$((\n1\n))", "$((1))").Replace(wantBody)
		}
		if got := respell(r.Heredoc); got != wantBody {
			return fmt.Errorf("%s: body %q, want %q\nsrc: %q", where, got, wantBody, c.Src)
		}
		if got := respell(r.Delim); got != h.Delim {
			return fmt.Errorf("%s: delimiter line %q, want %q\nsrc: %q", where, got, h.Delim, c.Src)
		}
		if h.Quoted && !literalOnly(r.Heredoc) {
			return fmt.Errorf("%s: the delimiter was quoted, but the body was scanned for expansions: %s\nsrc: %q", where, oracle.Word(r.Heredoc, oracle.Exact), c.Src)
		}
		got := oracle.Redir(r, oracle.Exact)
		want := skel.Redir(nStr(r), h.Op, h.WordSkel, skel.Word(h.BodySkel), skel.Word([]string{skel.Lit(h.Delim)}))
		if got != want {
			return fmt.Errorf("%s: parts differ\ngot:  %s\nwant: %s\nsrc: %q", where, got, want, c.Src)
		}
	}
	return nil
}

func nStr(r *ast.Redir) string {
	if r.N != nil {
		return r.N.Value
	}
	return ""
}

// c08Cut is a source that ends, without a newline, right behind a delimiter line.
type c08Cut struct {
	Src string `json:"src"`
}

// checkC08Cut: whatever is accepted has all its here-documents. The input
// may end behind the delimiter of the last pending here-document; behind an
// earlier one the others have no body, and the command is not complete.
func checkC08Cut(c c08Cut) error {
	cs := &countingScanner{s: c.Src}
	for cs.off < len(c.Src) {
		before := cs.off
		cmds, _, err := parser.ParseCommands(nil, "c08", cs)
		if err != nil {
			return nil
		}
		for i, r := range heredocRedirs(cmds) {
			if r.Heredoc == nil || r.Delim == nil {
				return fmt.Errorf("accepted, but here-document %d (%s %s) has no body / delimiter line\nsrc: %q", i+1, r.Op, respell(r.Word), c.Src)
			}
		}
		if cs.off == before {
			break
		}
	}
	return nil
}

func init() {
	reg("C08", "cut", checkC08Cut)
	reg("C08", "heredoc", checkC08)
	triageFns["C08"] = func(p *gen.Program, r gen.Rendered) error { return checkC08(c08CaseOf(p, r.Src)) }
}

func c08CaseOf(p *gen.Program, src string) c08Case {
	c := c08Case{Src: src}
	for _, h := range p.HDs {
		c.HDs = append(c.HDs, c08HD{Op: h.Op, WordSkel: h.WordSkel, BodySkel: h.BodySkel, Body: h.Body, Delim: h.Delim, Quoted: h.Quoted})
	}
	return c
}

// c08Spanning: here-documents that are pending while the rest of the line
// holds constructs with newlines in them that are no NEWLINE tokens (the
// bodies follow the line on which the last of these constructs ends), and
// many here-documents at one newline.
func c08Spanning() []c08Case {
	var out []c08Case
	hd := func(op, delim, body string) c08HD {
		d := delim
		if op == "<<-" {
			d = "\t" + delim
		}
		return c08HD{Op: op, WordSkel: skel.Word([]string{skel.Lit(delim)}), BodySkel: []string{skel.Lit(body)}, Body: body, Delim: d}
	}
	spans := []string{"(( 1 +\n2 ))", "(( x\n))", "b \"a\nb\"", "b 'a\nb'", "b $(a\nb)", "b `a\nb`", "b $((1 +\n2))", "b ${x:-a\nb}", "b \\\nc", "b \"$(a\nb)\"", "(( (1) +\n\n2 ))", "b $(a <<F\nf\nF\n)"}
	for _, sp := range spans {
		for _, sep := range []string{"; ", " | ", " && ", " & "} {
			for _, op := range []string{"<<", "<<-"} {
				// one and two pending here-documents
				src := "cat " + op + "A" + sep + sp + "\n" + "body a\n" + hd(op, "A", "").Delim + "\nnext\n"
				c := c08Case{Src: src, HDs: []c08HD{hd(op, "A", "body a\n")}}
				src2 := "cat " + op + "A <<B" + sep + sp + "\n" + "body a\n" + hd(op, "A", "").Delim + "\nbody b\nB\n"
				c2 := c08Case{Src: src2, HDs: []c08HD{hd(op, "A", "body a\n"), hd("<<", "B", "body b\n")}}
				if strings.Contains(sp, "<<F") {
					// (the here-document inside the substitution comes first in the tree)
					inner := hd("<<", "F", "f\n")
					c.HDs = append(c.HDs, inner)
					c2.HDs = append(c2.HDs, inner)
				}
				out = append(out, c, c2)
			}
		}
	}
	// in a group, where the line that follows is part of the same command
	for _, sp := range spans[:8] {
		src := "{ cat <<A; " + sp + "\nbody a\nA\ny\n}\n"
		out = append(out, c08Case{Src: src, HDs: []c08HD{hd("<<", "A", "body a\n")}})
	}
	// many at one newline
	for _, nd := range []int{5, 16, 17, 18, 40} {
		var b strings.Builder
		var hds []c08HD
		b.WriteString("cat")
		for i := 0; i < nd; i++ {
			op := []string{"<<", "<<-"}[i%2]
			fmt.Fprintf(&b, " %s%sE%d", []string{"", "4"}[i%2*(i%3/2)], op, i)
			hds = append(hds, hd(op, fmt.Sprintf("E%d", i), fmt.Sprintf("body %d\n", i)))
		}
		b.WriteString("\n")
		for i, h := range hds {
			fmt.Fprintf(&b, "body %d\n%s\n", i, h.Delim)
		}
		out = append(out, c08Case{Src: b.String(), HDs: hds})
	}
	return out
}

func TestC08(t *testing.T) {
	st := newStats("C08")
	defer st.Write()
	shd, nsh := shard()
	for i, c := range c08Spanning() {
		if i%nsh != shd {
			continue
		}
		if err := checkC08(c); err != nil {
			fail(t, "C08", "heredoc", c, "%v", err)
		}
		st.EvalN(1, 1)
		st.Class("pending_across_constructs_that_span_lines")
	}
	st.Note("here-documents (<< and <<-, one and two) pending while the rest of the line holds one of 12 constructs with newlines that are no NEWLINE tokens (arithmetic commands and expansions, quotes, substitutions, a line continuation, a substitution with its own here-document), behind ; | && &, at top level and in a group; 5 to 40 here-documents at one newline")
	n := 150000
	if thorough() {
		n = 3000000
	}
	n /= nsh
	prop := func(rt *rapid.T) {
		o := genOpts()
		o.MoreHeredocs = true
		o.SpacedSubstDelim = 1
		if excluded["heredoc_delimiter_spaced_substitution"] {
			o.SpacedSubstDelim = -1
		}
		o.MaxDepth = rapid.IntRange(1, 3).Draw(rt, "maxdepth")
		o.Budget = rapid.IntRange(1, 8).Draw(rt, "budget")
		p := gen.Complete(gen.RapidChooser{T: rt}, o)
		var lay gen.Layout = gen.Canonical{}
		if rapid.IntRange(0, 2).Draw(rt, "layout") != 0 {
			lay = gen.RandomLayout{T: rt, Comments: true, Conts: true, Linebreaks: true}
		}
		src := gen.Render(p.Stream, lay).Src
		c := c08CaseOf(p, src)
		jr.begin("C08", "heredoc", c)
		err := checkC08(c)
		jr.end()
		if err != nil && strings.HasPrefix(err.Error(), "harness:") {
			st.Class("skipped_source_not_accepted")
			return
		}
		if err != nil {
			fail(rt, "C08", "heredoc", c, "%v", err)
		}
		// the same source cut off right behind each delimiter line
		for _, h := range p.HDs {
			line := "\n" + h.Delim + "\n"
			for at := strings.Index(src, line); at >= 0; {
				cc := c08Cut{Src: src[:at+len(line)-1]}
				if err := checkC08Cut(cc); err != nil {
					fail(rt, "C08", "cut", cc, "%v", err)
				}
				st.Class("cut_behind_a_delimiter_line")
				nx := strings.Index(src[at+1:], line)
				if nx < 0 {
					break
				}
				at += 1 + nx
			}
		}
		compound := 0
		for k, v := range p.Feat {
			if strings.HasPrefix(k, "kind:") && k != "kind:simple" || k == "word:cmdsubst" {
				compound += v
			}
		}
		special := false
		for _, h := range p.HDs {
			special = special || strings.HasPrefix(h.Body, "\n") || strings.Contains(h.Body, h.DelimText) || len(h.BodySkel) > 1
		}
		st.Eval(len(p.HDs) >= 2 || len(p.HDs) == 1 && (compound > 0 || special), src)
		st.Class(fmt.Sprintf("heredocs_%d", len(p.HDs)))
		for k, v := range p.Feat {
			if strings.HasPrefix(k, "heredoc_") {
				st.ClassN(k, int64(v))
			}
			if strings.HasPrefix(k, "excluded:") {
				for i := 0; i < v; i++ {
					st.Exclude(strings.TrimPrefix(k, "excluded:"))
				}
			}
		}
		for _, h := range p.HDs {
			if h.Quoted {
				st.Class("delimiter_quoted")
			}
			if strings.HasPrefix(h.Body, "\n") {
				st.Class("body_empty_first_line")
			}
			if h.Op == "<<-" && strings.HasPrefix(h.Delim, "\t") {
				st.Class("tab_indented_delimiter")
			}
			if len(h.BodySkel) > 1 {
				st.Class("body_with_expansions")
			}
		}
		if len(p.HDs) > 0 {
			st.Sample(src)
		}
	}
	runRapid(t, n, prop)
	st.Note("generated commands with 0-4 here-documents at every redirection site (simple command prefix/suffix, after compound closers, both sides of | && ;, inside compound bodies and $( )), << and <<-, io-numbers, plain / single- / double- / backslash- / partially quoted delimiters, bodies with empty first lines, delimiter look-alikes, tab-indented lines and delimiters, $x ${x:-y} $(c) `c` \\$ \\\\ \\q; compared per redirection: operator, delimiter word, body re-spelled byte for byte, delimiter line, expansion parts iff the delimiter was unquoted; delimiters with $x, ${y}, $$ and backquotes in them, body lines with the literal parts of such a delimiter and lines that end in the delimiter text behind an expansion; every source also cut off right behind each delimiter line (what is accepted then has all its here-documents)")
}
