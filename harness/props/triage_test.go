package props

import (
	"fmt"
	"os"
	"regexp"
	"sort"
	"strings"
	"testing"

	"pgregory.net/rapid"

	"verif/gen"
)

// TestTriage is a development aid (VERIF_TRIAGE=<check>): it runs many small
// generated programs through one check and buckets the failures by message
// shape, printing the shortest example of each bucket.
func TestTriage(t *testing.T) {
	which := os.Getenv("VERIF_TRIAGE")
	if which == "" {
		t.Skip("VERIF_TRIAGE not set")
	}
	n := envInt("VERIF_TRIAGE_N", 20000)
	maxDepth := envInt("VERIF_TRIAGE_DEPTH", 2)
	budget := envInt("VERIF_TRIAGE_BUDGET", 4)
	num := regexp.MustCompile(`[0-9]+`)
	type bucket struct {
		n   int
		src string
		msg string
	}
	buckets := map[string]*bucket{}
	total := 0
	flagSet("rapid.checks", fmt.Sprint(n))
	flagSet("rapid.seed", fmt.Sprint(seed()))
	flagSet("rapid.nofailfile", "true")
	rapid.Check(t, func(rt *rapid.T) {
		o := genOpts()
		o.MaxDepth = rapid.IntRange(1, maxDepth).Draw(rt, "maxdepth")
		o.Budget = rapid.IntRange(1, budget).Draw(rt, "budget")
		if os.Getenv("VERIF_TRIAGE_NOHD") != "" {
			o.NoHeredoc = true
		}
		p := gen.Complete(gen.RapidChooser{T: rt}, o)
		var lay gen.Layout = gen.Canonical{}
		if os.Getenv("VERIF_TRIAGE_LAYOUT") != "" {
			lay = gen.RandomLayout{T: rt, Comments: true, Conts: true, Linebreaks: true}
		}
		src, err := triageOne(which, p, lay)
		total++
		if err == nil {
			return
		}
		msg := err.Error()
		first := strings.SplitN(msg, "\n", 2)[0]
		key := num.ReplaceAllString(first, "N")
		if len(key) > 160 {
			key = key[:160]
		}
		b := buckets[key]
		if b == nil {
			b = &bucket{src: src, msg: msg}
			buckets[key] = b
		}
		b.n++
		if len(src) < len(b.src) {
			b.src, b.msg = src, msg
		}
	})
	var keys []string
	for k := range buckets {
		keys = append(keys, k)
	}
	sort.Slice(keys, func(i, j int) bool { return buckets[keys[i]].n > buckets[keys[j]].n })
	fmt.Printf("TRIAGE %s: %d programs, %d failure buckets\n", which, total, len(keys))
	for i, k := range keys {
		if i >= envInt("VERIF_TRIAGE_TOP", 12) {
			break
		}
		b := buckets[k]
		m := strings.SplitN(b.msg, "\n", 2)[0]
		src := b.src
		if len(src) > 260 {
			src = src[:260] + "..."
		}
		fmt.Printf("--- [%d x] %s\n    shortest src (%d bytes): %q\n", b.n, m, len(b.src), src)
		if os.Getenv("VERIF_TRIAGE_FULL") != "" && i == 0 {
			fmt.Println(b.msg)
		}
	}
}

func triageOne(which string, p *gen.Program, lay gen.Layout) (string, error) {
	r := gen.Render(p.Stream, lay)
	switch which {
	case "C02":
		return r.Src, checkC02(c02Case{Src: r.Src, Want: p.Skel, Comments: commentSkels(r.Comments)})
	}
	if fn := triageFns[which]; fn != nil {
		return r.Src, fn(p, r)
	}
	return r.Src, fmt.Errorf("unknown triage target %s", which)
}

var triageFns = map[string]func(p *gen.Program, r gen.Rendered) error{}

func init() {
	triageFns["C04"] = func(p *gen.Program, r gen.Rendered) error {
		_, err := checkC04(c04Case{Src: r.Src})
		return err
	}
}
