package props

import (
	"fmt"
	"os"
	"path/filepath"
	"regexp"
	"strings"
	"testing"

	"pgregory.net/rapid"

	"verif/gen"
	"verif/wproto"
)

// C19 — whatever the parser produces can be printed, measured and expanded
// without panic; Eval, Match, Glob and Option.String never panic.

var c19Allowed = map[string][]string{
	"downstream": {"interp.ParamExpError", "interp.ArithExprError", "*syntax.Error", "parser.Error", "*errors.errorString"},
	"eval":       {"interp.ArithExprError"},
	"match":      {"*errors.errorString", "*syntax.Error"},
	"glob":       {"*syntax.Error", "*fs.PathError", "*os.SyscallError"},
}

func checkC19(w *workers, c workerCase, st *Stats) error {
	resp, err := w.exec(c, st)
	if err != nil {
		return fmt.Errorf("%v\nrequest: %+v", err, c.Req)
	}
	if resp.ErrTyp != "" {
		ok := false
		for _, a := range c19Allowed[c.Req.Op] {
			ok = ok || a == resp.ErrTyp
		}
		if c.Req.Op == "match" && resp.ErrTyp == "*errors.errorString" && resp.Err != "no match" {
			ok = false
		}
		if !ok {
			return fmt.Errorf("%s returned an error of the undocumented type %s: %s\nrequest: %+v", c.Req.Op, resp.ErrTyp, resp.Err, c.Req)
		}
	}
	return nil
}

var oddShape = regexp.MustCompile(`""|''|\\$|\$($|[ \t\n;|&)])|^[ \t]*[0-9]*[<>]`)

func TestC19(t *testing.T) {
	st := newStats("C19")
	defer st.Write()
	sh, nsh := shard()
	w := newWorkers()
	defer w.stop()
	scratch := filepath.Join(outDir(), fmt.Sprintf("c19-cwd-%d", sh))
	os.MkdirAll(filepath.Join(scratch, "d"), 0o755)
	for _, f := range []string{"a", "b", "*", "a b", "d/x", ".h", "é"} {
		os.WriteFile(filepath.Join(scratch, f), nil, 0o644)
	}
	// symbolic links: to a file, to a directory, to nothing, to itself
	for name, target := range map[string]string{"lf": "a", "ld": "d", "gone": "nowhere", "loop": "loop", "d/up": ".."} {
		os.Symlink(target, filepath.Join(scratch, name))
	}
	defer os.RemoveAll(scratch)

	run := func(tt fataler, req wproto.Req, nt bool, rapidCase bool) wproto.Resp {
		var last wproto.Resp
		for _, pn := range []string{"0", "1"} {
			if pn == "1" && req.Op != "eval" && req.Op != "downstream" {
				continue // only the entry points with a lexer goroutine depend on the setting
			}
			c := workerCase{Req: req, Panicnil: pn}
			err := checkC19(w, c, st)
			if err != nil && strings.Contains(err.Error(), errInfra.Error()) {
				t.Fatalf("INFRA: %v", err)
			}
			if err != nil {
				fail(tt, "C19", "downstream", c, "%v", err)
			}
			if rapidCase {
				st.Eval(nt, req.Op, req.Src, fmt.Sprint(req.Pats), fmt.Sprint(req.Mode), pn)
			} else if nt {
				st.EvalN(1, 1)
			} else {
				st.EvalN(1, 0)
			}
		}
		st.Class("op_" + req.Op)
		return last
	}

	// (a) every accepted short token string through every downstream entry point
	maxn := 3
	if thorough() {
		maxn = 4
	}
	for n := 0; n <= maxn; n++ {
		gen.TokenStrings(n, func(idx int, toks []string) {
			if idx%nsh != sh {
				return
			}
			for ri, src := range []string{strings.Join(toks, " "), strings.Join(toks, "")} {
				if ri == 1 && n < 2 {
					continue
				}
				lo, hi := uint(0), uint(256)
				if n >= 3 {
					// the full configuration space for every 16th input, a rotating window otherwise
					if idx%16 != 0 {
						lo = uint(idx*8) % 256
						hi = lo + 8
					}
				}
				run(t, wproto.Req{Op: "downstream", Src: src, Lo: lo, Hi: hi, Dir: scratch}, oddShape.MatchString(src), false)
			}
			if idx%20011 == 0 {
				st.Sample(map[string]any{"op": "downstream", "src": strings.Join(toks, " ")})
			}
		})
	}
	// byte sequences that are not valid UTF-8, in every kind of context
	if sh == 0 {
		for _, src := range append(invalidSources(), unusualSources()...) {
			run(t, wproto.Req{Op: "downstream", Src: src, Lo: 0, Hi: 256, Dir: scratch}, true, false)
		}
		st.ClassN("invalid_utf8_in_context", int64(len(invalidSources())))
	}
	// trees made with alias substitution: the text that comes from an alias
	// has no positions of its own (all its tokens carry the position of the
	// alias word), which the printer and the position methods have to survive
	{
		vals := []string{"echo $((1 + 2))", "((i += 1))", "x=$((1+$x)) y", "echo $(( (1 + 2) * $x ))", "cat <<E\nb\nE\n", "(x\ny)", "{ x\ny; }", "if x\nthen y\nfi", "for i in 1 2\ndo x\ndone", "case x in\nx) y;;\nesac",
			"x |\ny", "x && y || z", "x; y &", "! x", "f() { x; }", "x >f 2>&1 <<-E\n\tE\n", "echo \"$(a\nb)\" `c\nd`", "echo ${x:-$((1 - 2))} ~/a:~", "x # c\ny", "v=~:~/b w", "while x; do y; done >f", "echo 'a\nb' \"c\nd\" e\\\nf"}
		srcs := []string{"a", "a b", "a; a", "a | a", "x $(a) y", "{ a; }", "(a)", "if a; then a; fi", "b", "x `a`", "a &&\na", "f() { a; }\n",
			// the alias inside a substitution inside a here-document
			"cat <<E\n$(a)\nE\n", "cat <<E\n`a`\nE\n", "cat <<E\n$(( $(a) ))\nE\n", "cat <<-`a`\nx\n", "cat <<E\nx ${v:-$(a)} y\nE\n", "x \"$(a)\" <<E\n$(a)\nE\n"}
		k := 0
		for _, v := range vals {
			for _, src := range srcs {
				k++
				if k%nsh != sh {
					continue
				}
				al := map[string]string{"a": v, "b": "a "}
				lo := uint(k*8) % 256
				if k%4 == 0 {
					lo = 0
				}
				hi := lo + 8
				if k%4 == 0 {
					hi = 256
				}
				run(t, wproto.Req{Op: "downstream", Src: src, Lo: lo, Hi: hi, Dir: scratch, Env: "aliases", Aliases: al, Width: uint(k % 7)}, true, false)
				st.Class("trees_made_with_alias_substitution")
			}
		}
		st.Note("%d alias values (arithmetic expansions and commands of several parts, here-documents, compound commands and substitutions that span lines, comments, tilde-prefixes) x %d sources that use the alias in a command, a list, a pipeline, substitutions, compound commands and a function body, through every downstream entry point", len(vals), len(srcs))
	}
	// tilde-prefixes and colons: assignment values and words expanded in the
	// Assign mode look for "~" behind every ":"
	{
		idx := 0
		for n := 1; n <= 5; n++ {
			words([]string{"~", ":", "$", "a", "/", "~root", `"q"`, "$x", "="}, n, func(wd string) {
				idx++
				if idx%nsh != sh {
					return
				}
				run(t, wproto.Req{Op: "downstream", Src: "v=" + wd + " c " + wd + " >" + wd + "\n", Lo: uint(idx*8) % 256, Hi: uint(idx*8)%256 + 2, Dir: scratch}, true, false)
				st.Class("tilde_and_colon_words")
			})
		}
		st.Note("every word of <= 5 symbols over {~ : $ a / ~root \"q\" $x =} as assignment value, argument and redirection target, expanded under every mode")
	}
	// here-document operators inside a one-line substitution (rejected since
	// the repair of #72; kept as inputs), also inside a here-document body
	if sh == 2%nsh {
		odd := []string{"echo $(cat <<E)\n", "echo `cat <<E`\n", "cat <<A\n$(cat <<B)\nA\n", "x=$(cat <<E)\n", "cat <<A\n`cat <<-B`\nA\n", "cat <<A\n${x:-$(cat <<B)}\nA\n",
			"echo \"$(cat <<E)\"\n", "cat <<A <<B\n$(a <<C)\nA\nB\n", "f() { echo $(cat <<E); }\n", "echo $( (cat <<E) )\n", "echo $(<<E)\n", "a $(b <<X c) d <<Y\ny\nY\n"}
		for _, src := range odd {
			run(t, wproto.Req{Op: "downstream", Src: src, Lo: 0, Hi: 256, Dir: scratch}, true, false)
		}
		st.ClassN("odd_accepted_programs", int64(len(odd)))
	}
	// deeply nested multi-line programs under every configuration and indentation width
	if sh == 1%nsh {
		for _, src := range deepSources() {
			for w := uint(0); w < 7; w++ {
				run(t, wproto.Req{Op: "downstream", Src: src, Lo: 0, Hi: 256, Dir: scratch, Width: w}, true, false)
			}
		}
		st.ClassN("deeply_nested_program", int64(len(deepSources())))
	}
	// Option.String on all 2^14 values
	if sh == 0 {
		run(t, wproto.Req{Op: "option", Lo: 0, Hi: 1 << 14}, true, false)
		st.ClassN("option_values", 1<<14)
		st.Sample(map[string]any{"op": "Option.String", "values": "0 .. 16383"})
	}
	// short strings over the special characters to Eval, Match, Glob
	special := []string{"a", "1", "x", " ", "\n", "'", `"`, `\`, "$", "`", "*", "?", "[", "]", "~", "#", "&", ";", "|", "<", ">", "(", ")", "{", "}", "!", "=", "+", "-", "/", ".", ":", "%", "^", "é", "0x", "08", "\xff", "\xe3\x81"}
	k := 2
	if thorough() {
		k = 3
	}
	idx := 0
	for n := 0; n <= k; n++ {
		words(special, n, func(s string) {
			idx++
			if idx%nsh != sh {
				return
			}
			run(t, wproto.Req{Op: "eval", Src: s}, s != "", false)
			for _, m := range c12Modes {
				run(t, wproto.Req{Op: "match", Pats: []string{s}, Mode: m, Src: "a[" + s}, s != "", false)
				// several patterns: one that matches, s, a better one, the best one
				run(t, wproto.Req{Op: "match", Pats: []string{"a", s, `a\[`, "*", s + "*"}, Mode: m, Src: "a[" + s}, true, false)
				run(t, wproto.Req{Op: "match", Pats: []string{"*" + s, s, "[", "?" + s, "*"}, Mode: m, Src: "a[" + s}, true, false)
			}
			run(t, wproto.Req{Op: "glob", Src: s, Dir: scratch}, s != "", false)
			if idx%9973 == 0 {
				st.Sample(map[string]any{"op": "eval/match/glob", "src": s})
			}
		})
	}
	st.Exhaustive = true
	st.Note("exhaustive: every accepted string of <= %d tokens (both renderings) through Pos()/End() of every node, Fprint (all 256 configurations for strings of <= 2 tokens and every 16th longer one, a rotating window of 8 otherwise), Expand of every word under 8 mode combinations x {nounset on, off} x 6 environments (0-4 positional parameters, empty ones among them; HOME unset, null, /, with a trailing slash; IFS unset, null, with ill-formed bytes, one ill-formed byte, an incomplete character) in a scratch directory; every string of <= %d symbols over %d special symbols to Eval, Match (4 modes; alone and among four other patterns) and Glob; Option.String on all 2^14 values; everything in isolated workers under panicnil=0 and 1", maxn, k, len(special))

	// (b) generated programs and random strings
	n := 4000
	if thorough() {
		n = 100000
	}
	n /= nsh
	prop := func(rt *rapid.T) {
		switch rapid.IntRange(0, 3).Draw(rt, "what") {
		default:
			o := genOpts()
			o.MaxDepth = rapid.IntRange(1, 3).Draw(rt, "maxdepth")
			o.Budget = rapid.IntRange(1, 6).Draw(rt, "budget")
			p := gen.Complete(gen.RapidChooser{T: rt}, o)
			var lay gen.Layout = gen.Canonical{}
			if rapid.IntRange(0, 2).Draw(rt, "layout") != 0 {
				lay = gen.RandomLayout{T: rt, Comments: true, Conts: true, Linebreaks: true}
			}
			src := gen.Render(p.Stream, lay).Src
			if rapid.IntRange(0, 5).Draw(rt, "odd") == 0 {
				src = strings.TrimRight(src, "\n") + rapid.SampledFrom([]string{` \`, ` ""`, ` ''`, " $", ` "$"`, " <<E\nE\n", ` "" ''`, " >f", " ${9223372036854775808}", " ${18446744073709551616:-x}", " $((${99999999999999999999999}+1))", " ${#9223372036854775807}"}).Draw(rt, "oddtail")
			}
			lo := uint(rapid.IntRange(0, 31).Draw(rt, "cfgwindow") * 8)
			run(rt, wproto.Req{Op: "downstream", Src: src, Lo: lo, Hi: lo + 8, Dir: scratch, Width: uint(rapid.IntRange(0, 6).Draw(rt, "width"))}, oddShape.MatchString(src) || strings.Contains(src, "<<"), true)
			st.Sample(map[string]any{"op": "downstream", "src": src})
		case 3:
			s := strings.Join(rapid.SliceOfN(rapid.SampledFrom(special), 0, 8).Draw(rt, "s"), "")
			switch rapid.IntRange(0, 2).Draw(rt, "entry") {
			case 0:
				run(rt, wproto.Req{Op: "eval", Src: s}, true, true)
			case 1:
				subj := strings.Join(rapid.SliceOfN(rapid.SampledFrom(special), 0, 5).Draw(rt, "subj"), "")
				pats := []string{s, subj}
				for i := rapid.IntRange(0, 4).Draw(rt, "more_patterns"); i > 0; i-- {
					pats = append(pats, rapid.SampledFrom([]string{"a", "*", "?", "zzz", "a*", "*a", "[a-z]", "", s + "*", "*" + s}).Draw(rt, "pattern"))
				}
				if rapid.Bool().Draw(rt, "subject_last") {
					pats[1], pats[len(pats)-1] = pats[len(pats)-1], pats[1]
				}
				run(rt, wproto.Req{Op: "match", Pats: pats, Mode: uint(rapid.IntRange(0, 15).Draw(rt, "mode")), Src: subj}, true, true)
			case 2:
				run(rt, wproto.Req{Op: "glob", Src: s, Dir: scratch}, true, true)
			}
			st.Sample(map[string]any{"op": "eval/match/glob", "src": s})
		}
	}
	runRapid(t, n, prop)
}
