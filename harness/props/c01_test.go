package props

import (
	"fmt"
	"os"
	"path/filepath"
	"strings"
	"testing"
	"time"

	"pgregory.net/rapid"

	"verif/gen"
	"verif/wproto"
)

// C01 — parsing is total; C19 — nothing the parser produces makes a
// downstream entry point panic. Both run go.sh inside isolated workers.

type workerCase struct {
	Req      wproto.Req `json:"request"`
	Panicnil string     `json:"panicnil"` // "0" or "1": GODEBUG setting of the worker
}

func workerBin() string {
	if d := os.Getenv("VERIF_BIN"); d != "" {
		return filepath.Join(d, "worker")
	}
	return "/verif/out/bin/worker"
}

type workers struct {
	c map[string]*wproto.Client
}

func newWorkers() *workers {
	return &workers{c: map[string]*wproto.Client{
		"0": wproto.NewClient(workerBin(), "GODEBUG=panicnil=0"),
		"1": wproto.NewClient(workerBin(), "GODEBUG=panicnil=1"),
	}}
}

func (w *workers) stop() {
	for _, c := range w.c {
		c.Stop()
	}
}

var errInfra = fmt.Errorf("infrastructure")

// exec runs the request in the worker with the given panicnil setting and
// judges the part of the outcome that is common to C01 and C19: the process
// survives, nothing panics, an answer arrives.
func (w *workers) exec(c workerCase, st *Stats) (wproto.Resp, error) {
	cl := w.c[c.Panicnil]
	out := cl.Do(c.Req, 10*time.Second)
	if out.Infra != nil {
		return out.Resp, fmt.Errorf("%w: %v", errInfra, out.Infra)
	}
	if out.Timeout {
		// once more, alone in a fresh worker, with a 20x longer limit
		fresh := wproto.NewClient(workerBin(), "GODEBUG=panicnil="+c.Panicnil)
		defer fresh.Stop()
		out2 := fresh.Do(c.Req, 200*time.Second)
		if out2.Timeout {
			return out.Resp, fmt.Errorf("no answer within 10s, and none within 200s alone in a fresh process: the call blocks (panicnil=%s)", c.Panicnil)
		}
		if st != nil {
			st.Class("slow_answer_retried_ok")
		}
		out = out2
	}
	if out.Died {
		return out.Resp, fmt.Errorf("the process died (panicnil=%s): %s", c.Panicnil, oneLine(out.Detail))
	}
	if out.Resp.Panic != "" {
		return out.Resp, fmt.Errorf("panic in the calling goroutine (panicnil=%s): %s", c.Panicnil, out.Resp.Panic)
	}
	if !out.Resp.OK {
		return out.Resp, fmt.Errorf("%w: worker refused the request: %s", errInfra, out.Resp.Note)
	}
	return out.Resp, nil
}

// blankFirstLine: the first line of the source has no token at all.
func blankFirstLine(src string) bool {
	line := src
	if i := strings.IndexByte(src, '\n'); i >= 0 {
		line = src[:i]
	}
	line = strings.TrimLeft(line, " \t")
	return line == "" || strings.HasPrefix(line, "#")
}

func checkC01(w *workers, c workerCase, st *Stats) error {
	resp, err := w.exec(c, st)
	if err != nil {
		return fmt.Errorf("%v\nrequest: %+v", err, c.Req)
	}
	if c.Req.Op == "parse" && c.Req.Env == "" && resp.NCmds == 0 && resp.Err == "" {
		// neither commands nor an error: only for input whose first line is empty
		src := c.Req.Src
		if c.Req.N > 0 {
			src = c.Req.Head + strings.Repeat(c.Req.Unit, c.Req.N) + src
		}
		for strings.HasPrefix(src, "\\\n") {
			src = src[2:]
		}
		if !blankFirstLine(src) && !commentLinesOnly(src) {
			return fmt.Errorf("neither a command nor an error was returned for %q", abbrev(src))
		}
	}
	return nil
}

func abbrev(s string) string {
	if len(s) > 300 {
		return s[:150] + " ... " + s[len(s)-100:]
	}
	return s
}

// commentLinesOnly: leading comment lines are skipped within one call (pinned
// dialect), so a source of comment and blank lines only returns nothing.
func commentLinesOnly(src string) bool {
	sawComment := false
	for _, l := range strings.Split(src, "\n") {
		t := strings.TrimLeft(l, " \t")
		if strings.HasPrefix(t, "\\") {
			return true // a lone backslash / continuation: unspecified, not judged
		}
		switch {
		case strings.HasPrefix(t, "#"):
			sawComment = true
		case t == "":
			if !sawComment {
				return true
			}
		default:
			return false
		}
	}
	return true
}

var sharedWorkers *workers

func init() {
	reg("C01", "total", func(c workerCase) error {
		w := newWorkers()
		defer w.stop()
		return checkC01(w, c, nil)
	})
	reg("C19", "downstream", func(c workerCase) error {
		w := newWorkers()
		defer w.stop()
		return checkC19(w, c, nil)
	})
}

var c01Kinds = []string{"string", "bytes", "reader", "scanner", "lenient", "garbage", "func-reader", "slice-reader", "bytes.Buffer", "wrapped-eof-reader", "wrapped-eof-scanner", "errorlist-reader", "errorlist-scanner"}

// Byte sequences that are not valid UTF-8: a byte that never occurs, a lone
// continuation byte, truncated two- and three-byte characters, an encoded
// surrogate, a code point beyond U+10FFFF, an overlong encoding.
var invalidUTF8 = []string{"\xff", "\x80", "\xc3", "\xe3\x81", "\xed\xa0\x80", "\xf4\x90\x80\x80", "\xc0\xaf", "\xff\xff"}

var utf8Contexts = []string{"%s", "a%sb c", "'%s'", "\"%s\"", "$%s", "${%s}", "${x%s}", "${x:-%s}", "${x#%s}", "$((%s))", "$((1 + %s))", "((%s))", "cat <<%s\nx\n%s\n", "cat <<E\n%s $x\nE\n", "cat <<'E'\n%s\nE\n",
	"# %s\na", "\\%s", "`%s`", "$(%s)", "a=%s b", "%s=a b", ">%s", "a 2>%s", "case %s in (%s) a;; esac", "for %s in a; do b; done", "for i in %s; do b; done", "%s() { a; }", "a | %s && ! %s &", "if %s; then %s; fi", "a%s"}

// Valid characters that somebody treats specially: U+0080 (first after
// ASCII), no-break space, a combining mark, U+FFFD, a character beyond the
// BMP, carriage return, form feed, a byte order mark, a non-ASCII digit, NUL, DEL.
var unusualChars = []string{"\u0080", "\u00a0", "e\u0301", "\uFFFD", "\U0001F600", "\r", "\f", "\uFEFF", "\u0663", "\x00", "\x7f", "x\u0080", "\u0080x"}

func unusualSources() []string {
	var out []string
	for _, c := range utf8Contexts {
		for _, b := range unusualChars {
			out = append(out, strings.ReplaceAll(c, "%s", b))
		}
	}
	return out
}

func invalidSources() []string {
	var out []string
	for _, c := range utf8Contexts {
		for _, b := range invalidUTF8 {
			out = append(out, strings.ReplaceAll(c, "%s", b))
		}
	}
	return out
}

func c01NonTrivial(src string) bool {
	if len(strings.Fields(src)) < 2 {
		return false
	}
	return strings.ContainsAny(src, "|&;()<>'\"\\$`{}!") || strings.Contains(src, "if") || strings.Contains(src, "do") || strings.Contains(src, "case")
}

func TestC01(t *testing.T) {
	st := newStats("C01")
	defer st.Write()
	sh, nsh := shard()
	w := newWorkers()
	defer w.stop()

	run := func(tt fataler, req wproto.Req, rapidCase bool) {
		for _, pn := range []string{"0", "1"} {
			c := workerCase{Req: req, Panicnil: pn}
			err := checkC01(w, c, st)
			if err != nil && strings.Contains(err.Error(), errInfra.Error()) {
				t.Fatalf("INFRA: %v", err)
			}
			if err != nil {
				fail(tt, "C01", "total", c, "%v", err)
			}
			nt := c01NonTrivial(req.Src)
			if rapidCase {
				st.Eval(nt, req.Src, req.Kind, req.Env, pn, fmt.Sprint(req.Cmd), fmt.Sprint(req.Aliases))
			} else if nt {
				st.EvalN(1, 1)
			} else {
				st.EvalN(1, 0)
			}
		}
		st.Class("source_" + req.Kind)
		if req.Env != "" {
			st.Class("env_" + req.Env)
		}
	}

	// (i) exhaustive token strings, both renderings
	maxn := 3
	if thorough() {
		maxn = 4
	}
	for n := 0; n <= maxn; n++ {
		gen.TokenStrings(n, func(idx int, toks []string) {
			if idx%nsh != sh {
				return
			}
			for ri, src := range []string{strings.Join(toks, " "), strings.Join(toks, "")} {
				if ri == 1 && n < 2 {
					continue
				}
				req := wproto.Req{Op: "parse", Src: src, Kind: c01Kinds[(idx+ri)%len(c01Kinds)], Cmd: idx%7 == 0, Again: idx%11 == 0}
				if idx%5 == 0 && !req.Cmd {
					req.Env = "empty"
				}
				run(t, req, false)
			}
			if idx%20011 == 0 {
				st.Sample(map[string]any{"src": strings.Join(toks, " "), "also": "concatenated; both panicnil settings"})
			}
		})
	}
	// the same behind the heads of constructs that are still open, or that
	// the lexer and the parser leave at different moments
	{
		heads := []string{"a ( )", "a ( ) \n", "for a", "for a in a", "case a in", "case a in a )", "if a ; then", "while a ; do", "{", "(", "a |", "a &&",
			"a << E", "a << E ;", "$(", "`", "a ( ) {", "a $( a", "1 <", "if a ; then a ; else", "case a in a ) a ;;", "! a", "a ; }", "a ; fi"}
		hn := 2
		k := 0
		for _, h := range heads {
			for n := 1; n <= hn; n++ {
				gen.TokenStrings(n, func(idx int, toks []string) {
					k++
					if k%nsh != sh {
						return
					}
					src := h + " " + strings.Join(toks, " ")
					if k%4 == 1 {
						src = strings.ReplaceAll(h, " ", "") + strings.Join(toks, "")
					}
					run(t, wproto.Req{Op: "parse", Src: src, Kind: c01Kinds[k%len(c01Kinds)], Cmd: k%7 == 0}, false)
					st.Class("token_strings_behind_open_constructs")
				})
			}
		}
		st.Note("all strings of <= %d tokens behind each of %d heads (function headers, for / case / if / while heads, open groups, subshells, substitutions and backquotes, pending here-documents, a dangling operator, a closer without opener)", hn, len(heads))
	}
	// many here-documents pending at one newline
	for _, nd := range []int{5, 15, 16, 17, 18, 33, 64, 100} {
		for vi, wrap := range [][2]string{{"", ""}, {"a $(", ")\n"}, {"{ ", "}\n"}, {"a `", "`\n"}} {
			if (nd+vi)%nsh != sh {
				continue
			}
			var b strings.Builder
			b.WriteString(wrap[0] + "cat")
			for i := 0; i < nd; i++ {
				fmt.Fprintf(&b, " %s<<E%d", []string{"", "3", ""}[i%3], i)
			}
			b.WriteString("\n")
			for i := 0; i < nd; i++ {
				fmt.Fprintf(&b, "body %d\nE%d\n", i, i)
			}
			b.WriteString(wrap[1])
			run(t, wproto.Req{Op: "parse", Src: b.String(), Kind: c01Kinds[nd%len(c01Kinds)]}, false)
			st.Class("many_here_documents_at_one_newline")
		}
	}
	st.Exhaustive = true
	st.Note("exhaustive: all strings of <= %d tokens over the %d-token alphabet, blank-separated and concatenated, source kind rotating over string / []byte / io.Reader / custom RuneScanner / a RuneScanner whose UnreadRune steps back even after a failed read / one that returns a rune together with io.EOF / io.Readers of a func type and of a struct type with a slice field (not comparable) / *bytes.Buffer / an io.Reader and a RuneScanner that end with an error wrapping io.EOF (a failing read, for the parser) / an io.Reader that fails half-way and a RuneScanner that fails after two thirds with an error whose type is not comparable, every 11th with a second call on the same source object, each under GODEBUG panicnil=0 and panicnil=1, ParseCommands (every 7th: ParseCommand; every 5th: an environment with an empty alias table)", maxn, len(gen.TokenAlphabet))

	// (i-b) byte sequences that are not valid UTF-8, in every kind of context
	if sh == 0 {
		k := 0
		for _, src := range append(invalidSources(), unusualSources()...) {
			for _, kind := range c01Kinds {
				run(t, wproto.Req{Op: "parse", Src: src, Kind: kind, Cmd: k%5 == 0}, false)
				k++
			}
		}
		st.ClassN("invalid_utf8_in_context", int64(k))
		st.Note("%d invalid UTF-8 sequences and %d unusual valid characters in each of %d syntactic contexts, through every source kind", len(invalidUTF8), len(unusualChars), len(utf8Contexts))
	}

	// (i-b') large flat inputs: millions of comment, blank and continuation
	// lines, hundreds of thousands of words, commands, operands, redirections
	// and list members: nothing nests, so the size must not matter
	{
		type flat struct {
			head, unit string
			n          int
			tail       string
		}
		k := 0
		for _, f := range []flat{
			{"", "#\n", 6000000, "a\n"}, {"#\n", "\n", 6000000, "a\n"}, {"", "# c\n", 2000000, "a\n"}, {"", "\n", 2000000, "a\n"},
			{"", "a ", 300000, "\n"}, {"", "a\n", 300000, ""}, {"", "a;", 300000, "\n"}, {"", "a|", 100000, "a\n"}, {"", "a&&", 100000, "a\n"},
			{"cat <<E\n", "line\n", 10000, "E\n"}, {"", "\\\n", 1000000, "a\n"}, {"", " ", 4000000, "a\n"}, {"a ", "\\\n", 1000000, "a\n"},
			{"a #", "x", 4000000, "\n"}, {"", "x", 4000000, "\n"}, {"'", "x\n", 1000000, "'\n"}, {"\"", "x\n", 1000000, "\"\n"},
			{"a ", "'x'", 300000, "\n"}, {"a ", "$x", 300000, "\n"}, {"a ", "<f ", 100000, "\n"}, {"x=1 ", "y=2 ", 100000, "a\n"},
			{"{ ", "a\n", 100000, "}\n"}, {"if a; then\n", "b\n", 100000, "fi\n"}, {"case x in\n", "a) b;;\n", 50000, "esac\n"},
			{"for i in ", "w ", 300000, "; do a; done\n"}, {"a() {\n", "#\n", 1000000, "b\n}\n"}, {"a &&\n", "#\n", 1000000, "b\n"},
		} {
			k++
			if k%nsh != sh {
				continue
			}
			run(t, wproto.Req{Op: "parse", Head: f.head, Unit: f.unit, N: f.n, Src: f.tail, Cmd: k%2 == 0}, false)
			st.Class("large_flat_inputs")
		}
		st.Note("large flat inputs: 27 shapes of 10^4..6x10^6 repetitions (leading comment / blank / continuation lines, words, commands, pipeline and list operands, redirections, assignments, here-document lines, members of brace groups, if and case clauses, for words, comment lines inside a function body and after &&)")
	}

	// (i-b″) every construct that nests, 64 to 3000 levels deep, as a word in
	// an argument, an assignment, double-quotes, a here-document line and a
	// here-document line that goes on with a line continuation: the time may
	// grow with the depth, not explode, and no table is that small
	{
		type nest struct{ name, open, mid, close string }
		k := 0
		for _, n := range []int{64, 300, 1100, 3000} {
			for _, c := range []nest{
				{"param", "${a:-", "x", "}"}, {"dqparam", "\"${a:-", "x", "}\""}, {"cmdsubst", "$(a ", "x", ")"}, {"bq-in-cmdsubst", "$(a `b ", "x", "`)"}, {"arith", "$((1+", "2", "))"}, {"pattern", "${a%", "x", "}"}, {"mixed", "${a:-$(b \"", "x", "\")}"},
				{"subshell", "(", "a", ")"}, {"group", "{ ", "a;", " }"}, {"if", "if a; then ", "b;", " fi;"}, {"case", "case x in a) ", "b", " ;; esac"}, {"while", "while ", "a;", " do b; done;"}, {"func", "f() ", "a", ""}, {"pipe", "a | ", "b", ""}, {"andor", "! a && ", "b", ""},
			} {
				word := c.close != "" && strings.HasPrefix(c.open, "$") || strings.HasPrefix(c.open, "\"")
				ctxs := []string{"%s\n"}
				if word {
					ctxs = []string{"x %s\n", "cat <<E\n%s\nE\n", "cat <<E\n%s\\\nE\nE\n", "v=%s\n", "echo \"%s\"\n", "x >%s\n", "case %s in esac\n"}
				}
				for _, ctx := range ctxs {
					k++
					if k%nsh != sh {
						continue
					}
					src := fmt.Sprintf(ctx, strings.Repeat(c.open, n)+c.mid+strings.Repeat(c.close, n))
					run(t, wproto.Req{Op: "parse", Src: src, Kind: c01Kinds[k%len(c01Kinds)], Cmd: k%3 == 0}, false)
					st.Class("nesting_depth_64_to_3000")
				}
			}
		}
		st.Note("nesting: 15 constructs (parameter expansions plain / double-quoted / with a pattern, command substitutions, backquotes inside them, arithmetic expansions, a mix; subshells, groups, if, case, while, function bodies, pipelines, and-or lists) nested 64, 300, 1100 and 3000 deep; the word forms as argument, here-document line (also followed by a line continuation), assignment value, inside double-quotes, redirection target and case word")
	}

	// (i-c) small alias tables, systematically: a value that begins with another
	// alias and goes on with a fragment that may open a nested construct
	{
		heads := []string{"", "b ", "b;", "b", "a ", "b\n", "a"}
		frags := []string{"", "x", "$(", "`", "$((", "${", "'", "\"", "((", "(", "{ ", "<<E\n", "$(x)", "`x`", ";", "|", "&&", "$x", "\\", "if", "! x", "$(! x", "#", ")"}
		bvals := []string{"echo", "echo ", "", "a", "b ", "c;"}
		srcs := []string{"a", "a x", "a)", "a`", "a;a", "b a", "x; a\n", "for x a", "for x; a", "for x in y; a", "case x a", "for x a;b", "case x in a"}
		k := 0
		for _, h := range heads {
			for _, f := range frags {
				for _, bv := range bvals {
					for _, src := range srcs {
						k++
						if k%nsh != sh {
							continue
						}
						for _, tail := range []string{"", " "} {
							al := map[string]string{"a": h + f + tail, "b": bv}
							run(t, wproto.Req{Op: "parse", Src: src, Kind: c01Kinds[k%len(c01Kinds)], Env: "aliases", Aliases: al}, false)
						}
						st.ClassN("systematic_alias_tables", 2)
					}
				}
			}
		}
		st.Note("systematic alias tables: %d heads x %d fragments x %d values of the second alias x %d sources x {with, without trailing blank}", len(heads), len(frags), len(bvals), len(srcs))
	}

	// (i-d) alias values that span lines (a here-document, a compound command
	// with newlines inside) met inside a substitution, which itself stands in a
	// word, in the delimiter or in the body of a here-document: the text that
	// comes from an alias has no positions of its own
	{
		vals := []string{"cat <<E\nb\nE\n", "cat <<E\nb\nE", "(x\ny)", "{ x\ny; }", "if x\nthen y\nfi", "cat <<$(cat <<F\nF\n)", "x <<E", "x <<-E\n\tE\n", "x <<E; y <<F\n1\nE\n2\nF\n", "for i in 1\ndo x\ndone", "case x in\nx) y;;\nesac", "x |\ny", "x &&\ny", "x\ny", "$(x\ny)", "`x\ny`", "x # c\ny"}
		srcs := []string{"a", "a b", "$(a)", "`a`", "x $(a)", "x \"$(a)\"", "<<-`a`", "<<$(a)", "cat <<$(a)\nx\n", "cat <<E\n$(a)\nE\n", "cat <<E\n`a`\nE\n", "cat <<-E\n\t$(a) tail\nE\n", "cat <<E\n${x:-$(a)}\nE\n", "x $(a) <<E\nE\n", "cat <<E\n$(b)\nE\n", "$(( $(a) ))", "x=$(a) y", "x >$(a)", "for i in $(a); do y; done", "case $(a) in (`a`) y;; esac", "$(a)() { y; }", "a\n$(a)\n"}
		k := 0
		for _, v := range vals {
			for _, src := range srcs {
				k++
				if k%nsh != sh {
					continue
				}
				for _, bv := range []string{"a", "a "} {
					al := map[string]string{"a": v, "b": bv}
					run(t, wproto.Req{Op: "parse", Src: src, Kind: c01Kinds[k%len(c01Kinds)], Env: "aliases", Aliases: al}, false)
				}
				st.ClassN("multi_line_alias_values_in_substitutions", 2)
			}
		}
		st.Note("multi-line alias values in substitutions: %d values (here-documents, compound commands and substitutions that span lines) x %d sources (the alias met in a command or backquote substitution inside a word, a here-document delimiter or body, an arithmetic expansion, a redirection, a for or case word, a function name) x {directly, through a second alias}", len(vals), len(srcs))
	}

	// (ii) generated programs truncated at every rune; (iii) mutations; alias tables
	n := 4000
	if thorough() {
		n = 80000
	}
	n /= nsh
	hostile := []string{"<<\"\"", "<<\"$x\"", "<<\"\\\"\"", "<<E\"\"OF", "<<''", "<<\\", "$((", "`", "\\", "${", "<<E\n", "((", "'", "\"", "$(", "<<-", ";;", "\n", "#", "{", "}", "é", "\x00", "\xff", "))", ")", "&&", "|", "&"}
	// alias values: names (so that chains and cycles arise), complete tokens and unterminated fragments
	vtoks := append(append(append([]string{}, "a", "b", "c", "cmd", "echo", "ls", "x1", "foo"), gen.TokenAlphabet...), hostile...)
	// ... and values that span lines
	vtoks = append(vtoks, "cat <<E\nb\nE\n", "(x\ny)", "{ x\ny; }", "x <<E", "if x\nthen y\nfi", "$(x\ny)", "<<-`a`", "<<$(b)", "$(a)", "`b`", "cat <<E\n$(a)\nE\n")
	prop := func(rt *rapid.T) {
		o := genOpts()
		o.MaxDepth = rapid.IntRange(1, 3).Draw(rt, "maxdepth")
		o.Budget = rapid.IntRange(1, 6).Draw(rt, "budget")
		p := gen.Complete(gen.RapidChooser{T: rt}, o)
		var lay gen.Layout = gen.Canonical{}
		if rapid.IntRange(0, 2).Draw(rt, "layout") != 0 {
			lay = gen.RandomLayout{T: rt, Comments: true, Conts: true, Linebreaks: true}
		}
		src := gen.Render(p.Stream, lay).Src
		kind := rapid.SampledFrom(c01Kinds).Draw(rt, "kind")
		mode := rapid.IntRange(0, 4).Draw(rt, "mode")
		if mode == 4 {
			mode = 3
		}
		switch mode {
		case 0: // every truncation
			rs := []rune(src)
			for k := 0; k <= len(rs); k++ {
				run(rt, wproto.Req{Op: "parse", Src: string(rs[:k]), Kind: kind}, true)
			}
			st.Class("truncation_sweeps")
		case 1: // character-level mutations
			rs := []rune(src)
			for i := rapid.IntRange(1, 4).Draw(rt, "nmut"); i > 0 && len(rs) > 0; i-- {
				at := rapid.IntRange(0, len(rs)-1).Draw(rt, "at")
				switch rapid.IntRange(0, 2).Draw(rt, "mut") {
				case 0:
					rs = append(rs[:at:at], rs[at+1:]...)
				case 1:
					ins := []rune(rapid.SampledFrom(hostile).Draw(rt, "ins"))
					rs = append(rs[:at:at], append(ins, rs[at:]...)...)
				case 2:
					rs[at] = []rune(rapid.SampledFrom(hostile).Draw(rt, "flip"))[0]
				}
			}
			ms := string(rs)
			for i := rapid.IntRange(0, 2).Draw(rt, "nraw"); i > 0; i-- {
				// raw bytes, at any byte offset (this may also cut a character in two)
				at := rapid.IntRange(0, len(ms)).Draw(rt, "rawat")
				ms = ms[:at] + rapid.SampledFrom(invalidUTF8).Draw(rt, "raw") + ms[at:]
				st.Class("mutated_with_invalid_utf8")
			}
			run(rt, wproto.Req{Op: "parse", Src: ms, Kind: kind, Cmd: rapid.Bool().Draw(rt, "cmd")}, true)
			st.Class("mutated_programs")
		case 2: // splice two programs
			q := gen.Complete(gen.RapidChooser{T: rt}, o)
			s2 := gen.Render(q.Stream, gen.Canonical{}).Src
			a := rapid.IntRange(0, len(src)).Draw(rt, "cut1")
			b := rapid.IntRange(0, len(s2)).Draw(rt, "cut2")
			run(rt, wproto.Req{Op: "parse", Src: src[:a] + s2[b:], Kind: kind}, true)
			st.Class("spliced_programs")
		case 3: // alias tables, including recursive ones and values with substitutions
			names := []string{"a", "b", "c", "cmd", "echo", "ls", "x1", "foo"}
			al := map[string]string{}
			var defined []string
			for i := rapid.IntRange(1, 4).Draw(rt, "naliases"); i > 0; i-- {
				name := rapid.SampledFrom(names).Draw(rt, "aname")
				var v strings.Builder
				if rapid.Bool().Draw(rt, "chain") {
					// the value begins with (another) alias name: a chain or a cycle
					v.WriteString(rapid.SampledFrom(names).Draw(rt, "vhead"))
					v.WriteString(rapid.SampledFrom([]string{" ", " ", "", ";"}).Draw(rt, "vheadsep"))
				}
				for j := rapid.IntRange(0, 4).Draw(rt, "nvtok"); j > 0; j-- {
					if rapid.IntRange(0, 3).Draw(rt, "opener") == 0 {
						// something that opens a nested construct and is not closed inside the value
						v.WriteString(rapid.SampledFrom([]string{"$(", "`", "$((", "${", "'", "\"", "((", "<<E\n", "(", "{ "}).Draw(rt, "vopen"))
					} else {
						v.WriteString(rapid.SampledFrom(vtoks).Draw(rt, "vtok"))
					}
					v.WriteString(rapid.SampledFrom([]string{" ", " ", "", "\n"}).Draw(rt, "vsep"))
				}
				al[name] = v.String()
				defined = append(defined, name)
			}
			if rapid.Bool().Draw(rt, "lead") {
				// make sure an alias is met in command position
				src = rapid.SampledFrom(defined).Draw(rt, "leadname") + rapid.SampledFrom([]string{" ", "\n", ";", " | "}).Draw(rt, "leadsep") + src
			}
			run(rt, wproto.Req{Op: "parse", Src: src, Kind: kind, Env: "aliases", Aliases: al}, true)
			st.Class("alias_tables")
		}
		st.Sample(map[string]any{"src": src, "mode": []string{"every truncation", "character mutations", "splice", "alias table"}[mode]})
	}
	runRapid(t, n, prop)
}
