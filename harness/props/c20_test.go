package props

import (
	"fmt"
	"os"
	"reflect"
	"sort"
	"strconv"
	"strings"
	"testing"

	"github.com/hattya/go.sh/ast"
	"github.com/hattya/go.sh/interp"
	"github.com/hattya/go.sh/parser"
	"pgregory.net/rapid"

	"verif/oracle"
	"verif/ref"
)

// C20 — the variable store is a map with read-only specials (stateful).

type c20Op struct {
	Kind  string `json:"op"` // set | unset | get | walk | expand | eval
	Name  string `json:"name,omitempty"`
	Value string `json:"value,omitempty"`
	Src   string `json:"src,omitempty"` // word source (expand) or expression (eval)
	// Args: for "args", the new value of the Args field, element 0 included;
	// for "opts", Value holds the new option bits in decimal.
	Args []string `json:"args,omitempty"`
}

type c20Case struct {
	Args []string `json:"args"` // positional parameters
	Opts uint     `json:"opts"`
	Ops  []c20Op  `json:"ops"`
	// Sparse: the store is only compared with the model where the history has
	// a "get" or "walk" operation, and at the end.
	Sparse bool `json:"sparse,omitempty"`
}

var c20Names = []string{"a", "A", "b", "_x", "IFS", "@", "*", "#", "?", "-", "$", "!", "0", "1", "2", "10", "01", "08", "010", "", "18446744073709551616"}

func c20Special(n string) bool {
	switch n {
	case "@", "*", "#", "?", "-", "$", "!", "0":
		return true
	}
	// a name made of digits is a positional parameter, however large
	return n != "" && strings.Trim(n, "0123456789") == ""
}

// c20Expected returns what Get must report for a name.
func c20Expected(name string, model map[string]string, args []string, opts interp.Option, arg0 string) (string, bool) {
	switch name {
	case "#":
		return strconv.Itoa(len(args)), true
	case "?":
		return "0", true
	case "-":
		// set even when no option is on (only $! can be unset)
		return opts.String(), true
	case "$":
		return strconv.Itoa(os.Getpid()), true
	case "!":
		return "", false
	case "0":
		return arg0, true
	case "@", "*":
		v, ok := model[name]
		return v, ok
	}
	if n, err := strconv.Atoi(name); err == nil {
		if n >= 1 && n <= len(args) {
			return args[n-1], true
		}
		return "", false
	}
	v, ok := model[name]
	return v, ok
}

func checkC20(c c20Case) error {
	os.Setenv("1", "from-the-environment")
	os.Setenv("@", "from-the-environment")
	os.Setenv("c20_ordinary", "v")
	env := interp.NewExecEnv("sh", c.Args...)
	env.Opts = interp.Option(c.Opts)
	env.Aliases["ll"] = "ls -l"
	model := map[string]string{}
	env.Walk(func(v interp.Var) { model[v.Name] = v.Value })
	// the process environment of the check contains entries named like a
	// positional and a special parameter: they are not variables
	for n := range model {
		if c20Special(n) {
			return fmt.Errorf("a fresh environment reports a variable named %q (taken from the process environment): Walk must only report variables", n)
		}
	}
	// the caller may replace Args and Opts (the fields are exported): the
	// special and positional parameters follow them
	args, arg0 := c.Args, "sh"
	argsSnap := oracle.Snapshot(env.Args)
	aliasSnap := oracle.Snapshot(env.Aliases)
	optsSnap := env.Opts

	var invariantGet, invariantWalk func(step string) error
	invariant := func(step string) error {
		if err := invariantGet(step); err != nil {
			return err
		}
		return invariantWalk(step)
	}
	invariantGet = func(step string) error {
		for _, n := range c20Names {
			want, wset := c20Expected(n, model, args, env.Opts, arg0)
			var got interp.Var
			var gset bool
			if e := guard(func() error { got, gset = env.Get(n); return nil }); e != nil {
				return fmt.Errorf("%s: Get(%q) %v", step, n, e)
			}
			if n == "@" || n == "*" {
				// not variables: Get must not invent a value for them
				if gset && !wset {
					return fmt.Errorf("%s: Get(%q) = %q, set; nothing ever assigned it", step, n, got.Value)
				}
				continue
			}
			if gset != wset || got.Value != want {
				return fmt.Errorf("%s: Get(%q) = %q (set=%v), want %q (set=%v)", step, n, got.Value, gset, want, wset)
			}
		}
		return nil
	}
	invariantWalk = func(step string) error {
		seen := map[string]string{}
		dup := ""
		env.Walk(func(v interp.Var) {
			if _, ok := seen[v.Name]; ok {
				dup = v.Name
			}
			seen[v.Name] = v.Value
		})
		if dup != "" {
			return fmt.Errorf("%s: Walk reports %q twice", step, dup)
		}
		if len(seen) != len(model) {
			return fmt.Errorf("%s: Walk reports %d variables, the model has %d (%s)", step, len(seen), len(model), mapDiff(seen, model))
		}
		for k, v := range model {
			if g, ok := seen[k]; !ok || g != v {
				return fmt.Errorf("%s: Walk reports %s=%q (present=%v), want %q", step, k, g, ok, v)
			}
		}
		if oracle.Snapshot(env.Args) != argsSnap || oracle.Snapshot(env.Aliases) != aliasSnap || env.Opts != optsSnap {
			return fmt.Errorf("%s: Args, Opts or Aliases changed", step)
		}
		return nil
	}
	if err := invariant("initially"); err != nil {
		return err
	}
	for i, op := range c.Ops {
		step := fmt.Sprintf("step %d %+v", i+1, op)
		switch op.Kind {
		case "set":
			env.Set(op.Name, op.Value)
			if !c20Special(op.Name) {
				model[op.Name] = op.Value
			}
		case "unset":
			env.Unset(op.Name)
			if !c20Special(op.Name) {
				delete(model, op.Name)
			}
		case "get", "walk":
			// the invariant below does both
		case "args":
			env.Args = append([]string{}, op.Args...)
			arg0, args = op.Args[0], op.Args[1:]
			argsSnap = oracle.Snapshot(env.Args)
		case "opts":
			n, _ := strconv.Atoi(op.Value)
			env.Opts = interp.Option(n)
			optsSnap = env.Opts
		case "expand":
			cmd, _, err := parser.ParseCommand("c20", "_ "+op.Src)
			if err != nil {
				return fmt.Errorf("harness: %q: %v", op.Src, err)
			}
			w := cmd.(*ast.Cmd).Expr.(*ast.SimpleCmd).Args[1]
			snap := oracle.Snapshot(w)
			pe := w[0].(*ast.ParamExp)
			name := pe.Name.Value
			before, wasSet := c20Expected(name, model, args, env.Opts, arg0)
			var gerr error
			if e := guard(func() error { _, gerr = env.Expand(w, 0); return nil }); e != nil {
				return fmt.Errorf("%s: Expand %v", step, e)
			}
			if oracle.Snapshot(w) != snap {
				return fmt.Errorf("%s: Expand changed the word it was given", step)
			}
			null := !wasSet || before == ""
			op := pe.Op
			if name == "@" || name == "*" {
				op = "" // their set/null state is C13's business; here: no store change
			}
			switch op {
			case ":=":
				if null && !c20Special(name) {
					model[name] = "W"
				}
				if null != (gerr != nil) && c20Special(name) {
					return fmt.Errorf("%s: error %v, want an error exactly when the parameter is unset or null (it cannot be assigned)", step, gerr)
				}
			case "=":
				if !wasSet && !c20Special(name) {
					model[name] = "W"
				}
			case ":?":
				if null != (gerr != nil) {
					return fmt.Errorf("%s: error %v, want an error exactly when the parameter is unset or null", step, gerr)
				}
			}
			if gerr != nil {
				if _, ok := gerr.(interp.ParamExpError); !ok {
					return fmt.Errorf("%s: error %T %v, want a ParamExpError", step, gerr, gerr)
				}
			}
		case "expandw":
			// ${name<op>word} with a word that has an effect of its own or fails:
			// the word is expanded exactly when it is needed, and exactly once
			cmd, _, err := parser.ParseCommand("c20", "_ "+op.Src)
			if err != nil {
				return fmt.Errorf("harness: %q: %v", op.Src, err)
			}
			w := cmd.(*ast.Cmd).Expr.(*ast.SimpleCmd).Args[1]
			snap := oracle.Snapshot(w)
			pe := w[0].(*ast.ParamExp)
			name := pe.Name.Value
			before, wasSet := c20Expected(name, model, args, env.Opts, arg0)
			needed := !wasSet
			if strings.HasPrefix(pe.Op, ":") {
				needed = !wasSet || before == ""
			}
			if pe.Op == ":+" || pe.Op == "+" {
				needed = !needed
			}
			// the word
			val, wordFails := "", false
			if needed {
				switch wsrc := op.Src[strings.Index(op.Src, pe.Op)+len(pe.Op) : len(op.Src)-1]; wsrc {
				case "$((n_+=1))":
					n, _ := strconv.Atoi(model["n_"])
					model["n_"] = strconv.Itoa(n + 1)
					val = model["n_"]
				case "${y_:?}", "$((1/0))", "$((08))":
					wordFails = true
				case "${1:=v}":
					// a positional parameter cannot be assigned: fails unless $1 has a value
					p1, p1set := c20Expected("1", model, args, env.Opts, arg0)
					wordFails = !p1set || p1 == ""
					val = p1
				case "${b:=V}":
					if model["b"] == "" {
						model["b"] = "V"
					}
					val = model["b"]
				case "W":
					val = "W"
				default:
					return fmt.Errorf("harness: unknown word %q", wsrc)
				}
			}
			var gerr error
			if e := guard(func() error { _, gerr = env.Expand(w, 0); return nil }); e != nil {
				return fmt.Errorf("%s: Expand %v", step, e)
			}
			if oracle.Snapshot(w) != snap {
				return fmt.Errorf("%s: Expand changed the word it was given", step)
			}
			wantErr := wordFails
			if needed && !wordFails {
				switch pe.Op {
				case ":=", "=":
					if c20Special(name) {
						wantErr = true // cannot be assigned
					} else {
						model[name] = val
					}
				case ":?", "?":
					wantErr = true
				}
			}
			if wantErr != (gerr != nil) {
				return fmt.Errorf("%s: error %v, want an error: %v (the word is needed: %v, its own expansion fails: %v)", step, gerr, wantErr, needed, wordFails)
			}
			if gerr != nil {
				switch gerr.(type) {
				case interp.ParamExpError, interp.ArithExprError:
				default:
					return fmt.Errorf("%s: error %T %v, want a ParamExpError or an ArithExprError", step, gerr, gerr)
				}
			}
		case "trimcount":
			// the pattern word of a trimming operator on $@ / $* / $1 steps a
			// counter: once, however many positional parameters there are
			cmd, _, err := parser.ParseCommand("c20", "_ "+op.Src)
			if err != nil {
				return fmt.Errorf("harness: %q: %v", op.Src, err)
			}
			w := cmd.(*ast.Cmd).Expr.(*ast.SimpleCmd).Args[1]
			snap := oracle.Snapshot(w)
			if e := guard(func() error { env.Expand(w, 0); return nil }); e != nil {
				return fmt.Errorf("%s: Expand %v", step, e)
			}
			if oracle.Snapshot(w) != snap {
				return fmt.Errorf("%s: Expand changed the word it was given", step)
			}
			n, _ := strconv.Atoi(model["n_"])
			model["n_"] = strconv.Itoa(n + 1)
		case "rawpos":
			// a positional parameter spelled with leading zeros, in a word built
			// by hand (the parser does not accept the spelling): whatever the
			// outcome, neither the word nor the store changes
			var w ast.Word
			pe := &ast.ParamExp{Braces: true, Name: &ast.Lit{Value: op.Name}}
			switch op.Value {
			case "#len":
				pe.Op = "#"
			case "":
			default:
				pe.Op, pe.Word = op.Value, ast.Word{&ast.Lit{Value: "W"}}
			}
			w = ast.Word{pe}
			snap := oracle.Snapshot(w)
			if e := guard(func() error { env.Expand(w, 0); return nil }); e != nil {
				return fmt.Errorf("%s: Expand %v", step, e)
			}
			if after := oracle.Snapshot(w); after != snap {
				return fmt.Errorf("%s: Expand changed the word it was given: %s", step, firstDiff(after, snap))
			}
		case "arithassign":
			// ${name:=$c20_src} inside an arithmetic expansion: what is stored
			// is the value of the word, as everywhere
			env.Set("c20_src", "3")
			model["c20_src"] = "3"
			cmd, _, err := parser.ParseCommand("c20", "_ "+op.Src)
			if err != nil {
				return fmt.Errorf("harness: %q: %v", op.Src, err)
			}
			w := cmd.(*ast.Cmd).Expr.(*ast.SimpleCmd).Args[1]
			before, wasSet := c20Expected(op.Name, model, args, env.Opts, arg0)
			if e := guard(func() error { env.Expand(w, 0); return nil }); e != nil {
				return fmt.Errorf("%s: Expand %v", step, e)
			}
			if needed := !wasSet || before == "" && strings.Contains(op.Src, ":="); needed && !c20Special(op.Name) {
				model[op.Name] = "3"
			}
		case "arith":
			// the expression as an arithmetic expansion, expanded twice from the
			// same parsed word
			cmd, _, err := parser.ParseCommand("c20", "_ $(("+op.Src+"))")
			if err != nil {
				return fmt.Errorf("harness: %q: %v", op.Src, err)
			}
			w := cmd.(*ast.Cmd).Expr.(*ast.SimpleCmd).Args[1]
			snap := oracle.Snapshot(w)
			tree, ok := c20Exprs[op.Src]
			if !ok {
				return fmt.Errorf("harness: unknown expression %q", op.Src)
			}
			for round := 1; round <= 2; round++ {
				st := map[string]string{}
				for k, v := range model {
					st[k] = v
				}
				ev := &ref.AEval{Store: st}
				var want int64
				var fault *ref.AFault
				if tree == nil {
					fault = &ref.AFault{Msg: "syntax error"}
				} else {
					want, fault = ev.Eval(tree)
				}
				var got []string
				var gerr error
				if e := guard(func() error { got, gerr = env.Expand(w, 0); return nil }); e != nil {
					return fmt.Errorf("%s: Expand %v", step, e)
				}
				if oracle.Snapshot(w) != snap {
					return fmt.Errorf("%s: Expand changed the word it was given (expansion %d)", step, round)
				}
				if (fault != nil) != (gerr != nil) {
					return fmt.Errorf("%s: expansion %d of $((%s)): error %v, reference fault %v", step, round, op.Src, gerr, fault)
				}
				if fault == nil {
					// the result is unquoted text: it is split at the IFS of the moment
					ifs, ifsSet := st["IFS"]
					fields := ref.Split([]ref.Seg{{Text: strconv.FormatInt(want, 10)}}, ifs, ifsSet)
					if !(len(got) == 0 && len(fields) == 0) && !reflect.DeepEqual(got, fields) {
						return fmt.Errorf("%s: expansion %d of $((%s)) = %q, want %q (value %d, IFS %q set=%v)", step, round, op.Src, got, fields, want, ifs, ifsSet)
					}
					model = st
				}
				if err := invariant(fmt.Sprintf("%s (expansion %d)", step, round)); err != nil {
					return fmt.Errorf("%v\nhistory: %+v", err, c.Ops[:i+1])
				}
			}
		case "eval":
			// reference evaluation on a copy of the model
			st := map[string]string{}
			for k, v := range model {
				st[k] = v
			}
			tree, ok := c20Exprs[op.Src]
			if !ok {
				return fmt.Errorf("harness: unknown expression %q", op.Src)
			}
			ev := &ref.AEval{Store: st}
			var fault *ref.AFault
			if tree == nil {
				fault = &ref.AFault{Msg: "syntax error"} // not an expression: nothing is evaluated
			} else {
				_, fault = ev.Eval(tree)
			}
			var gerr error
			if e := guard(func() error { _, gerr = env.Eval(op.Src); return nil }); e != nil {
				return fmt.Errorf("%s: Eval %v", step, e)
			}
			if (fault != nil) != (gerr != nil) {
				return fmt.Errorf("%s: Eval error %v, reference fault %v", step, gerr, fault)
			}
			if fault == nil {
				model = st
			}
		}
		// what is looked at after the step: everything (the default), or only
		// what the history itself asks for ("get" / "walk" operations), so that
		// state which is refreshed by being looked at can go stale in between
		var err error
		switch {
		case !c.Sparse || i == len(c.Ops)-1:
			err = invariant(step)
		case op.Kind == "get":
			err = invariantGet(step)
		case op.Kind == "walk":
			err = invariantWalk(step)
		}
		if err != nil {
			return fmt.Errorf("%v\nhistory: %+v", err, c.Ops[:i+1])
		}
	}
	return nil
}

func mapDiff(a, b map[string]string) string {
	var d []string
	for k := range a {
		if _, ok := b[k]; !ok {
			d = append(d, "+"+k)
		}
	}
	for k := range b {
		if _, ok := a[k]; !ok {
			d = append(d, "-"+k)
		}
	}
	sort.Strings(d)
	return strings.Join(d, " ")
}

func init() { reg("C20", "store", checkC20) }

// expressions of the history alphabet with their trees (assignment targets
// are ordinary names; right-hand sides never fault on their own, so that
// go.sh's "assignment after a fault" finding does not interfere)
var c20Exprs = map[string]*ref.ANode{
	"a = 7":     {Kind: "asg", Op: "=", S: "a", A: &ref.ANode{Kind: "num", S: "7"}},
	"A = 010":   {Kind: "asg", Op: "=", S: "A", A: &ref.ANode{Kind: "num", S: "010"}},
	"b += 2":    {Kind: "asg", Op: "+=", S: "b", A: &ref.ANode{Kind: "num", S: "2"}},
	"a *= 3":    {Kind: "asg", Op: "*=", S: "a", A: &ref.ANode{Kind: "num", S: "3"}},
	"_x++":      {Kind: "postinc", S: "_x"},
	"--a":       {Kind: "predec", S: "a"},
	"b = 1 + 2": {Kind: "asg", Op: "=", S: "b", A: &ref.ANode{Kind: "bin", Op: "+", A: &ref.ANode{Kind: "num", S: "1"}, B: &ref.ANode{Kind: "num", S: "2"}}},
	"a + b":     {Kind: "bin", Op: "+", A: &ref.ANode{Kind: "var", S: "a"}, B: &ref.ANode{Kind: "var", S: "b"}},
	"A <<= 1":   {Kind: "asg", Op: "<<=", S: "A", A: &ref.ANode{Kind: "num", S: "1"}},
	"a /= 0":    {Kind: "asg", Op: "/=", S: "a", A: &ref.ANode{Kind: "num", S: "0"}},
	// the operand of ++ / -- is not a variable: a fault, and nothing is stored
	"--5":       {Kind: "predec", S: "5"},
	"7++":       {Kind: "postinc", S: "7"},
	"--(a + 4)": {Kind: "predec", S: "(a + 4)"},
	"++b":       {Kind: "preinc", S: "b"},
	// a conditional yields a value, not the variable it selected
	"(1 ? a : b) = 5":  {Kind: "asg", Op: "=", S: "(1 ? a : b)", A: &ref.ANode{Kind: "num", S: "5"}},
	"(0 ? a : b) += 5": {Kind: "asg", Op: "+=", S: "(0 ? a : b)", A: &ref.ANode{Kind: "num", S: "5"}},
	"(1 ? _x : b)++":   {Kind: "postinc", S: "(1 ? _x : b)"},
	"--(0 ? a : A)":    {Kind: "predec", S: "(0 ? a : A)"},
	"(a + 0) = 2":      {Kind: "asg", Op: "=", S: "(a + 0)", A: &ref.ANode{Kind: "num", S: "2"}},
	// an assignment in an operand that is not evaluated, and the same variable read afterwards
	"(0 && (a = 5)) + (b = a)": {Kind: "bin", Op: "+",
		A: &ref.ANode{Kind: "bin", Op: "&&", A: &ref.ANode{Kind: "num", S: "0"}, B: &ref.ANode{Kind: "asg", Op: "=", S: "a", A: &ref.ANode{Kind: "num", S: "5"}}},
		B: &ref.ANode{Kind: "asg", Op: "=", S: "b", A: &ref.ANode{Kind: "var", S: "a"}}},
	"0 && _x++ || (b = _x)": {Kind: "bin", Op: "||",
		A: &ref.ANode{Kind: "bin", Op: "&&", A: &ref.ANode{Kind: "num", S: "0"}, B: &ref.ANode{Kind: "postinc", S: "_x"}},
		B: &ref.ANode{Kind: "asg", Op: "=", S: "b", A: &ref.ANode{Kind: "var", S: "_x"}}},
	"(1 || (A = 9)) + (b = A + 1)": {Kind: "bin", Op: "+",
		A: &ref.ANode{Kind: "bin", Op: "||", A: &ref.ANode{Kind: "num", S: "1"}, B: &ref.ANode{Kind: "asg", Op: "=", S: "A", A: &ref.ANode{Kind: "num", S: "9"}}},
		B: &ref.ANode{Kind: "asg", Op: "=", S: "b", A: &ref.ANode{Kind: "bin", Op: "+", A: &ref.ANode{Kind: "var", S: "A"}, B: &ref.ANode{Kind: "num", S: "1"}}}},
	"(0 ? (_x = 3) : 4) + (b = _x)": {Kind: "bin", Op: "+",
		A: &ref.ANode{Kind: "cond", A: &ref.ANode{Kind: "num", S: "0"}, B: &ref.ANode{Kind: "asg", Op: "=", S: "_x", A: &ref.ANode{Kind: "num", S: "3"}}, C: &ref.ANode{Kind: "num", S: "4"}},
		B: &ref.ANode{Kind: "asg", Op: "=", S: "b", A: &ref.ANode{Kind: "var", S: "_x"}}},
	// the left operand of || is a variable that the right operand changes
	"(a || (a = 1)) && (b = 2)": {Kind: "bin", Op: "&&",
		A: &ref.ANode{Kind: "bin", Op: "||", A: &ref.ANode{Kind: "var", S: "a"}, B: &ref.ANode{Kind: "asg", Op: "=", S: "a", A: &ref.ANode{Kind: "num", S: "1"}}},
		B: &ref.ANode{Kind: "asg", Op: "=", S: "b", A: &ref.ANode{Kind: "num", S: "2"}}},
	"(_x || ++_x) ? (A = 1) : (b = 2)": {Kind: "cond",
		A: &ref.ANode{Kind: "bin", Op: "||", A: &ref.ANode{Kind: "var", S: "_x"}, B: &ref.ANode{Kind: "preinc", S: "_x"}},
		B: &ref.ANode{Kind: "asg", Op: "=", S: "A", A: &ref.ANode{Kind: "num", S: "1"}},
		C: &ref.ANode{Kind: "asg", Op: "=", S: "b", A: &ref.ANode{Kind: "num", S: "2"}}},
	"(b && (b = 0)) || (_x = 4)": {Kind: "bin", Op: "||",
		A: &ref.ANode{Kind: "bin", Op: "&&", A: &ref.ANode{Kind: "var", S: "b"}, B: &ref.ANode{Kind: "asg", Op: "=", S: "b", A: &ref.ANode{Kind: "num", S: "0"}}},
		B: &ref.ANode{Kind: "asg", Op: "=", S: "_x", A: &ref.ANode{Kind: "num", S: "4"}}},
	// a fault in an operand that is not evaluated, then an assignment that is
	"(0 && 08) + (_x = 1)": {Kind: "bin", Op: "+",
		A: &ref.ANode{Kind: "bin", Op: "&&", A: &ref.ANode{Kind: "num", S: "0"}, B: &ref.ANode{Kind: "num", S: "08"}},
		B: &ref.ANode{Kind: "asg", Op: "=", S: "_x", A: &ref.ANode{Kind: "num", S: "1"}}},
	"(1 || 7++) + (b += 1)": {Kind: "bin", Op: "+",
		A: &ref.ANode{Kind: "bin", Op: "||", A: &ref.ANode{Kind: "num", S: "1"}, B: &ref.ANode{Kind: "postinc", S: "7"}},
		B: &ref.ANode{Kind: "asg", Op: "+=", S: "b", A: &ref.ANode{Kind: "num", S: "1"}}},
	// a conditional inside an operand that is not evaluated
	"1 ? 1 : 0 ? 2 : (_x = 3)": {Kind: "cond", A: &ref.ANode{Kind: "num", S: "1"}, B: &ref.ANode{Kind: "num", S: "1"},
		C: &ref.ANode{Kind: "cond", A: &ref.ANode{Kind: "num", S: "0"}, B: &ref.ANode{Kind: "num", S: "2"}, C: &ref.ANode{Kind: "asg", Op: "=", S: "_x", A: &ref.ANode{Kind: "num", S: "3"}}}},
	"b = 0 && (1 ? 2 : 3)": {Kind: "asg", Op: "=", S: "b",
		A: &ref.ANode{Kind: "bin", Op: "&&", A: &ref.ANode{Kind: "num", S: "0"}, B: &ref.ANode{Kind: "cond", A: &ref.ANode{Kind: "num", S: "1"}, B: &ref.ANode{Kind: "num", S: "2"}, C: &ref.ANode{Kind: "num", S: "3"}}}},
	"(1 || (A ? 1 : 2)) + (b = 4)": {Kind: "bin", Op: "+",
		A: &ref.ANode{Kind: "bin", Op: "||", A: &ref.ANode{Kind: "num", S: "1"}, B: &ref.ANode{Kind: "cond", A: &ref.ANode{Kind: "var", S: "A"}, B: &ref.ANode{Kind: "num", S: "1"}, C: &ref.ANode{Kind: "num", S: "2"}}},
		B: &ref.ANode{Kind: "asg", Op: "=", S: "b", A: &ref.ANode{Kind: "num", S: "4"}}},
	"0 ? (1 ? (a = 1) : 2) : (_x += 2)": {Kind: "cond", A: &ref.ANode{Kind: "num", S: "0"},
		B: &ref.ANode{Kind: "cond", A: &ref.ANode{Kind: "num", S: "1"}, B: &ref.ANode{Kind: "asg", Op: "=", S: "a", A: &ref.ANode{Kind: "num", S: "1"}}, C: &ref.ANode{Kind: "num", S: "2"}},
		C: &ref.ANode{Kind: "asg", Op: "+=", S: "_x", A: &ref.ANode{Kind: "num", S: "2"}}},
	// not expressions (nil): a syntax error, also inside an operand that is not evaluated
	"0 && (1 +":  nil,
	"1 || (2 *":  nil,
	"0 ? (a = 1": nil,
	"a = 1 +":    nil,
}

func c20Alphabet() []c20Op {
	var ops []c20Op
	for _, n := range []string{"a", "A", "1", "#"} {
		ops = append(ops, c20Op{Kind: "set", Name: n, Value: "v"}, c20Op{Kind: "unset", Name: n})
	}
	ops = append(ops, c20Op{Kind: "set", Name: "a", Value: ""})
	for _, src := range []string{"${a:=W}", "${A=W}", "${a:?W}", "${1:=W}", "${a:-W}"} {
		ops = append(ops, c20Op{Kind: "expand", Src: src})
	}
	for _, src := range []string{"a = 7", "a *= 3", "_x++"} {
		ops = append(ops, c20Op{Kind: "eval", Src: src})
	}
	ops = append(ops, c20Op{Kind: "arith", Src: "a = 7"}, c20Op{Kind: "eval", Src: "--5"}, c20Op{Kind: "eval", Src: "0 && (1 +"}, c20Op{Kind: "walk"})
	ops = append(ops, c20Op{Kind: "args", Args: []string{"other", "q1", "q2"}}, c20Op{Kind: "expand", Src: "${0:-W}"})
	ops = append(ops, c20Op{Kind: "expandw", Src: "${a:=$((n_+=1))}"}, c20Op{Kind: "expandw", Src: "${A:?${y_:?}}"}, c20Op{Kind: "eval", Src: "(0 && (a = 5)) + (b = a)"})
	return ops
}

func c20NonTrivial(c c20Case) bool {
	assigning, undo := false, false
	for _, op := range c.Ops {
		switch op.Kind {
		case "expand":
			assigning = assigning || strings.Contains(op.Src, "=")
			undo = undo || strings.Contains(op.Src, "?")
		case "expandw":
			assigning = true
		case "eval", "arith":
			assigning = assigning || strings.ContainsAny(op.Src, "=+-")
		case "unset":
			undo = true
		}
	}
	return assigning && undo
}

func TestC20(t *testing.T) {
	st := newStats("C20")
	defer st.Write()
	sh, nsh := shard()

	run := func(tt fataler, c c20Case, rapidCase bool) {
		err := checkC20(c)
		if err != nil {
			fail(tt, "C20", "store", c, "%v", err)
		}
		nt := c20NonTrivial(c)
		if rapidCase {
			st.Eval(nt, fmt.Sprint(c))
		} else if nt {
			st.EvalN(1, 1)
		} else {
			st.EvalN(1, 0)
		}
	}

	// (a) every history of <= 3 (thorough 4) operations over a reduced alphabet
	alpha := c20Alphabet()
	maxn := 3
	if thorough() {
		maxn = 5
	}
	idx := 0
	var rec func(prefix []c20Op)
	rec = func(prefix []c20Op) {
		idx++
		if idx%nsh == sh && len(prefix) > 0 {
			run(t, c20Case{Args: []string{"p1"}, Ops: prefix}, false)
			if len(prefix) > 1 {
				run(t, c20Case{Args: []string{"p1"}, Ops: prefix, Sparse: true}, false)
			}
			if idx%5003 == 0 {
				st.Sample(prefix)
			}
		}
		if len(prefix) == maxn {
			return
		}
		for _, op := range alpha {
			rec(append(append([]c20Op{}, prefix...), op))
		}
	}
	rec(nil)
	st.Exhaustive = true
	st.Note("exhaustive: every history of <= %d operations over %d operations (Set/Unset of ordinary, positional and special names, null values, assigning and non-assigning expansions, assigning evaluations); after every step Get of %d names and the complete Walk are compared with a plain map model", maxn, len(alpha), len(c20Names))

	// (b) random longer histories
	n := 300000
	if thorough() {
		n = 6000000
	}
	n /= nsh
	var exprs []string
	for k := range c20Exprs {
		exprs = append(exprs, k)
	}
	sort.Strings(exprs)
	values := []string{"", "v", "5", "010", "0x1F", "abc", "a b", "-3", "é", "08"}
	ordinary := []string{"a", "A", "b", "_x"}
	prop := func(rt *rapid.T) {
		c := c20Case{Args: rapid.SliceOfN(rapid.SampledFrom(values), 0, 3).Draw(rt, "args")}
		if rapid.Bool().Draw(rt, "tenargs") {
			c.Args = []string{"1", "2", "3", "4", "5", "6", "7", "8", "9", "ten"}
		}
		c.Opts = uint(rapid.SampledFrom([]interp.Option{0, interp.NoGlob, interp.AllExport | interp.XTrace, interp.NoUnset, interp.NoUnset | interp.NoGlob}).Draw(rt, "opts"))
		k := rapid.IntRange(1, 12).Draw(rt, "nops")
		for i := 0; i < k; i++ {
			switch rapid.IntRange(0, 9).Draw(rt, "op") {
			case 8, 9:
				name := rapid.SampledFrom([]string{"a", "A", "b", "_x", "1", "2", "?", "!", "10"}).Draw(rt, "wname")
				op := rapid.SampledFrom([]string{":=", "=", ":?", "?", ":-", "-", ":+", "+"}).Draw(rt, "wop")
				word := rapid.SampledFrom([]string{"$((n_+=1))", "$((n_+=1))", "${y_:?}", "$((1/0))", "${1:=v}", "$((08))", "${b:=V}", "W"}).Draw(rt, "wword")
				if c20Special(name) && (op == ":=" || op == "=") {
					// the assignment is refused; whether the word is expanded before that is not specified
					word = "W"
				}
				c.Ops = append(c.Ops, c20Op{Kind: "expandw", Src: "${" + name + op + word + "}"})
				st.Class("expansion_with_a_word_that_assigns_or_fails")
				if rapid.IntRange(0, 3).Draw(rt, "arithassign") == 0 && !c20Special(name) {
					form := rapid.SampledFrom([]string{"$((${%s:=$c20_src} + 1))", "$((${%s:=${c20_src}}*2))", `"$((${%s:="$c20_src"}))"`, "$((1 + ${%s=$c20_src}))"}).Draw(rt, "aaform")
					c.Ops[len(c.Ops)-1] = c20Op{Kind: "arithassign", Name: name, Src: fmt.Sprintf(form, name)}
				}
				nonEmpty := len(c.Args) >= 1
				for _, a := range c.Args {
					nonEmpty = nonEmpty && a != ""
				}
				// (whether the pattern is expanded at all for a null parameter is not specified)
				if nonEmpty && rapid.IntRange(0, 4).Draw(rt, "trimcount") == 0 {
					c.Ops[len(c.Ops)-1] = c20Op{Kind: "trimcount", Src: rapid.SampledFrom([]string{"${@#$((n_+=1))}", "\"${@##$((n_+=1))}\"", "${*%$((n_+=1))}", "\"${*%%$((n_+=1))}\"", "${1#$((n_+=1))}", "\"${@%$((n_+=1))}\""}).Draw(rt, "tcsrc")}
				} else if rapid.IntRange(0, 5).Draw(rt, "rawpos") == 0 {
					c.Ops[len(c.Ops)-1] = c20Op{Kind: "rawpos", Name: rapid.SampledFrom([]string{"01", "02", "010", "007", "09", "0011"}).Draw(rt, "rpname"), Value: rapid.SampledFrom([]string{"", ":=", "=", "?", ":?", "#len", "%", ":-"}).Draw(rt, "rpop")}
				}
			case 7:
				c.Ops = append(c.Ops, c20Op{Kind: "get"})
				switch rapid.IntRange(0, 5).Draw(rt, "fields") {
				case 0:
					c.Ops[len(c.Ops)-1] = c20Op{Kind: "args", Args: rapid.SampledFrom([][]string{{"other", "x"}, {"-", "a b", "2", "3"}, {"sh", "1", "2", "3", "4", "5", "6", "7", "8", "9", "10", "11"}, {"é", "0"}}).Draw(rt, "newargs")}
					st.Class("args_field_replaced")
				case 1:
					c.Ops[len(c.Ops)-1] = c20Op{Kind: "opts", Value: strconv.Itoa(int(rapid.SampledFrom([]interp.Option{0, interp.NoGlob, interp.NoUnset, interp.Verbose | interp.ErrExit}).Draw(rt, "newopts")))}
					st.Class("opts_field_replaced")
				}
			case 0:
				c.Ops = append(c.Ops, c20Op{Kind: "set", Name: rapid.SampledFrom(c20Names).Draw(rt, "name"), Value: rapid.SampledFrom(values).Draw(rt, "value")})
			case 1:
				c.Ops = append(c.Ops, c20Op{Kind: "unset", Name: rapid.SampledFrom(c20Names).Draw(rt, "name")})
			case 2:
				c.Ops = append(c.Ops, c20Op{Kind: "walk"})
			case 3, 4:
				name := rapid.SampledFrom(c20Names).Draw(rt, "name")
				if name == "#" || name == "" || len(name) > 1 && name[0] == '0' {
					name = "a" // ${#:=W} and friends read as other forms; ${01} is not accepted; these names are exercised through Get / Set / Unset
				}
				op := rapid.SampledFrom([]string{":=", "=", ":?", ":-", "+", "", "%", "##"}).Draw(rt, "pop")
				src := "${" + name + op + "W}"
				if op == "%" || op == "##" {
					src = "${" + name + op + "?}" // a pattern that removes something
				}
				if op == "" {
					src = "${" + name + "}"
				}
				c.Ops = append(c.Ops, c20Op{Kind: "expand", Src: src})
			case 5:
				_ = ordinary
				c.Ops = append(c.Ops, c20Op{Kind: "eval", Src: rapid.SampledFrom(exprs).Draw(rt, "expr")})
			case 6:
				e := rapid.SampledFrom(exprs).Draw(rt, "expr")
				if strings.Count(e, "(") != strings.Count(e, ")") {
					e = "a = 1 +" // unbalanced parentheses cannot be written as $((...))
				}
				c.Ops = append(c.Ops, c20Op{Kind: "arith", Src: e})
			}
		}
		c.Sparse = rapid.Bool().Draw(rt, "sparse")
		if c.Sparse {
			st.Class("history_with_sparse_observation")
		}
		run(rt, c, true)
		st.ClassN("steps", int64(len(c.Ops)))
		st.Sample(c.Ops)
	}
	runRapid(t, n, prop)
}
