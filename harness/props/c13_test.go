package props

import (
	"fmt"
	"os"
	"reflect"
	"strconv"
	"strings"
	"testing"
	"unicode/utf8"

	"github.com/hattya/go.sh/ast"
	"github.com/hattya/go.sh/interp"
	"github.com/hattya/go.sh/parser"
	"pgregory.net/rapid"

	"verif/ref"
)

// C13 — parameter expansion follows the POSIX operator table.

// wAtom is one piece of an operator word with a known expansion.
type wAtom struct {
	Kind string `json:"k"` // lit | sq | var | dqvar | canary
	Text string `json:"t"` // literal text, or the variable's value
}

type c13Case struct {
	Param   string   `json:"param"` // p | 1 | 2 | 10 | @ | * | # | ? | 0 | - | $ | !
	Set     bool     `json:"set"`   // ordinary / positional parameter: is it set
	Value   string   `json:"value"`
	Args    []string `json:"args"` // positional parameters $1...
	Op      string   `json:"op"`   // "" | "#len" | one of the 12 operators
	Word    []wAtom  `json:"word"`
	DQ      bool     `json:"dq"`
	NoUnset bool     `json:"nounset"`
	// Opts: "" = noglob is on (so that results are not looked up in the file
	// system); "none" / "silent" = no option at all / only options that have
	// no letter (ignoreeof, nolog, vi): $- is then set but null. Only used
	// with DQ, where neither field splitting nor pathname expansion applies.
	Opts   string `json:"opts,omitempty"`
	IFSSet bool   `json:"ifs_set"`
	IFS    string `json:"ifs"`
}

func (c c13Case) source() string {
	var w strings.Builder
	for i, a := range c.Word {
		switch a.Kind {
		case "lit":
			w.WriteString(a.Text)
		case "sq":
			t := a.Text
			if c.DQ && !strings.ContainsAny(c.Op, "%#") {
				// the quotes are ordinary characters here, so a brace between
				// them would end the expansion
				t = strings.ReplaceAll(t, "}", `\}`)
			}
			w.WriteString("'" + t + "'")
		case "bs":
			w.WriteString(`\` + a.Text)
		case "nestsq":
			// a nested expansion (of a parameter that is never set) whose word is single-quoted text
			w.WriteString("${u_:-'" + a.Text + "'}")
		case "nestdq":
			w.WriteString(`"${u_:-'` + a.Text + `'}"`)
		case "var":
			fmt.Fprintf(&w, "${w%d}", i)
		case "dqvar":
			fmt.Fprintf(&w, `"${w%d}"`, i)
		case "canary":
			w.WriteString("${canary:=1}")
		case "count":
			// a word that does not expand to the same thing twice
			w.WriteString("$((c13n+=1))")
		}
	}
	var s string
	switch c.Op {
	case "":
		if len(c.Param) == 1 && len(c.Args)%2 == 0 {
			s = "$" + c.Param
		} else {
			s = "${" + c.Param + "}"
		}
	case "#len":
		s = "${#" + c.Param + "}"
	default:
		s = "${" + c.Param + c.Op + w.String() + "}"
	}
	if c.DQ {
		s = `"` + s + `"`
	}
	return s
}

// c13Model is the expected outcome.
type c13Model struct {
	Err      string // "" | "unset" | "assign" | "indicate"
	ErrMsg   string // for "indicate" with a non-empty word: the word's expansion
	Fields   []string
	Assign   *string // new value of the parameter
	WordUsed bool
	Skip     string // not compared (unspecified), but run for no-panic
}

func c13Expect(c c13Case) c13Model {
	var m c13Model
	ifs := c.IFS
	if !c.IFSSet {
		ifs = " \t\n"
	}
	sep := " "
	if c.IFSSet {
		sep = ""
		if c.IFS != "" {
			_, w := utf8.DecodeRuneInString(c.IFS)
			sep = c.IFS[:w]
		}
	}
	// the parameter
	var vals []string
	set, multi := false, false
	switch c.Param {
	case "@":
		vals, set, multi = append([]string{}, c.Args...), true, true
	case "*":
		set = true
		if c.DQ {
			if len(c.Args) > 0 {
				vals = []string{strings.Join(c.Args, sep)}
			}
		} else {
			vals, multi = append([]string{}, c.Args...), true
		}
	case "#":
		vals, set = []string{strconv.Itoa(len(c.Args))}, true
	case "?":
		vals, set = []string{"0"}, true
	case "0":
		vals, set = []string{"sh"}, true
	case "$":
		vals, set = []string{strconv.Itoa(os.Getpid())}, true
	case "!":
	case "-":
		// the check always runs with noglob (f), plus nounset (u)
		vals, set = []string{"f"}, true
		if c.Opts != "" {
			vals = []string{""}
		}
		if c.NoUnset {
			vals[0] += "u"
		}
	case "p":
		if c.Set {
			vals, set = []string{c.Value}, true
		}
	default: // positional
		n, _ := strconv.Atoi(c.Param)
		if n >= 1 && n <= len(c.Args) {
			vals, set = []string{c.Args[n-1]}, true
		}
	}
	null := true
	for _, v := range vals {
		if v != "" {
			null = false
		}
	}
	special := c.Param != "p"
	if c.Param == "@" || c.Param == "*" {
		switch c.Op {
		case "", "%", "%%", "#", "##":
		case "#len":
			m.Skip = "length of $@ / $* is unspecified"
		default:
			// dash and bash agree: no parameters, or exactly one that is empty,
			// is null; two or more parameters are not null even if all are empty
			allEmpty := null
			null = len(c.Args) == 0 || len(c.Args) == 1 && c.Args[0] == ""
			if len(c.Args) == 0 && !strings.HasPrefix(c.Op, ":") {
				m.Skip = "whether $@ / $* is set without positional parameters is unspecified (dash: set, bash: unset)"
			}
			if len(c.Args) >= 2 && allEmpty && sep == "" && c.Param == "*" && c.DQ {
				// "$*" is one string: nothing joined with nothing is null (dash and bash agree)
				null = true
			} else if len(c.Args) >= 2 && allEmpty && sep == "" {
				m.Skip = "$* of several empty parameters joined with nothing: null or not is unspecified"
			}
		}
	}
	if c.Param == "#" && (c.Op == "#" || c.Op == "##" || (c.Op == "-" || c.Op == "?") && len(c.Word) == 0) {
		m.Skip = "${#-} ${#?} ${##} read as string lengths"
	}
	// the operator word
	var wsegs []ref.Seg
	wtext := ""
	nthCount := 0
	for _, a := range c.Word {
		t, q := a.Text, c.DQ
		if strings.ContainsAny(c.Op, "%#") && c.Op != "#len" {
			// double quotes around the whole expansion do not quote the pattern
			q = false
		}
		switch a.Kind {
		case "sq":
			if c.DQ && !(strings.ContainsAny(c.Op, "%#") && c.Op != "#len") {
				// inside double-quotes a single quote is an ordinary character
				// (dash and bash agree); in the pattern of % and # it quotes
				t = "'" + t + "'"
			}
			q = true
		case "bs":
			if c.DQ && !(strings.ContainsAny(c.Op, "%#") && c.Op != "#len") && !strings.Contains("$`\"\\}", t) {
				// inside double-quotes a backslash that escapes nothing stays
				t = `\` + t
			}
			q = true
		case "nestsq":
			// the nested word is double-quoted text exactly where this word is:
			// not in the pattern of % and #, which is scanned as if unquoted
			if q {
				t = "'" + t + "'"
			}
			q = true
		case "nestdq":
			t = "'" + t + "'"
			q = true
		case "dqvar":
			q = true
		case "canary":
			t = "1"
		case "count":
			nthCount++
			t = strconv.Itoa(nthCount)
		}
		wsegs = append(wsegs, ref.Seg{Text: t, Quoted: q})
		wtext += t
	}
	valueSegs := func() [][]ref.Seg {
		var out [][]ref.Seg
		for _, v := range vals {
			out = append(out, []ref.Seg{{Text: v, Quoted: c.DQ}})
		}
		return out
	}
	var groups [][]ref.Seg // one group per field source ($@ yields several)
	useWord := func() {
		m.WordUsed = true
		groups = [][]ref.Seg{wsegs}
	}
	unsetErr := func() bool {
		if !set && c.NoUnset && c.Param != "@" && c.Param != "*" {
			m.Err = "unset"
			return true
		}
		return false
	}
	switch c.Op {
	case "":
		if unsetErr() {
			return m
		}
		groups = valueSegs()
	case "#len":
		if unsetErr() {
			return m
		}
		v := ""
		if len(vals) > 0 {
			v = vals[0]
		}
		groups = [][]ref.Seg{{{Text: strconv.Itoa(utf8.RuneCountInString(v)), Quoted: c.DQ}}}
	case ":-", "-":
		if set && !null || set && c.Op == "-" {
			groups = valueSegs()
		} else {
			useWord()
		}
	case ":=", "=":
		if set && !null || set && c.Op == "=" {
			groups = valueSegs()
		} else if special {
			m.Err = "assign"
			return m
		} else {
			useWord()
			m.Assign = &wtext
		}
	case ":?", "?":
		if set && !null || set && c.Op == "?" {
			groups = valueSegs()
		} else {
			m.Err = "indicate"
			m.ErrMsg = wtext
			m.WordUsed = len(c.Word) > 0
			return m
		}
	case ":+", "+":
		if set && !null || set && c.Op == "+" {
			useWord()
		}
	case "%", "%%", "#", "##":
		if unsetErr() {
			return m
		}
		m.WordUsed = true
		// the pattern: quoted parts are literal
		var pat strings.Builder
		dangling := false // the unquoted text so far ends in a backslash that escapes nothing yet
		for _, s := range wsegs {
			if s.Quoted {
				if dangling && s.Text != "" {
					// a quoted character cannot be escaped once more: the backslash
					// stands for itself (bash; dash agrees on what does not match)
					pat.WriteByte('\\')
					dangling = false
				}
				for _, r := range s.Text {
					pat.WriteByte('\\')
					pat.WriteRune(r)
				}
			} else {
				pat.WriteString(s.Text)
				if s.Text != "" {
					dangling = false
				}
				for j := len(s.Text) - 1; j >= 0 && s.Text[j] == '\\'; j-- {
					dangling = !dangling
				}
			}
		}
		pt, err := ref.ParsePattern(pat.String())
		if err != nil {
			m.Skip = "operator word is not a well-formed pattern"
			return m
		}
		if !set || null {
			groups = valueSegs()
			break
		}
		for _, v := range vals {
			rs := []rune(v)
			aff := ref.Affixes([]*ref.Pattern{pt}, c.Op[0] == '#', rs)
			cut := 0
			if len(aff) > 0 {
				cut = aff[0]
				if len(c.Op) == 2 {
					cut = aff[len(aff)-1]
				}
			}
			res := string(rs[cut:])
			if c.Op[0] == '%' {
				res = string(rs[:len(rs)-cut])
			}
			groups = append(groups, []ref.Seg{{Text: res, Quoted: c.DQ}})
		}
	}
	// fields
	if c.DQ {
		if multi || c.Param == "@" {
			for _, g := range groups {
				s := ""
				for _, sg := range g {
					s += sg.Text
				}
				m.Fields = append(m.Fields, s)
			}
			if len(groups) == 0 && !(c.Param == "@" && c.Op == "") {
				// only the plain "$@" vanishes; "${@:+w}" that selects nothing is ""
				m.Fields = []string{""}
			}
		} else {
			s := ""
			for _, g := range groups {
				for _, sg := range g {
					s += sg.Text
				}
			}
			m.Fields = []string{s}
		}
		return m
	}
	for _, g := range groups {
		m.Fields = append(m.Fields, ref.Split(g, ifs, true)...)
	}
	return m
}

var c13Env = interp.NewExecEnv("sh")

// c13Arith: a positional or special parameter inside an arithmetic
// expansion stands for its value (a variable name may be handed to the
// evaluator as it is, a parameter that is not a name may not).
type c13Arith struct {
	Src  string   `json:"src"`
	Args []string `json:"args"`
	Want string   `json:"want"`
}

func checkC13Arith(c c13Arith) error {
	cmd, _, err := parser.ParseCommand("c13", "_ "+c.Src)
	if err != nil {
		return fmt.Errorf("harness: %q does not parse: %v", c.Src, err)
	}
	env := interp.NewExecEnv("sh", c.Args...)
	env.Opts = interp.NoGlob
	var got []string
	var gerr error
	if e := guard(func() error {
		got, gerr = env.Expand(cmd.(*ast.Cmd).Expr.(*ast.SimpleCmd).Args[1], 0)
		return nil
	}); e != nil {
		return fmt.Errorf("Expand(%s) with args %q %v", c.Src, c.Args, e)
	}
	if gerr != nil || len(got) != 1 || got[0] != c.Want {
		return fmt.Errorf("Expand(%s) with args %q = %q, %v; want [%q]", c.Src, c.Args, got, gerr, c.Want)
	}
	return nil
}

func checkC13(c c13Case) (skip string, err error) {
	src := "_ " + c.source()
	cmd, _, perr := parser.ParseCommand("c13", src)
	if perr != nil {
		return "", fmt.Errorf("harness: %q does not parse: %v", src, perr)
	}
	word := cmd.(*ast.Cmd).Expr.(*ast.SimpleCmd).Args[1]
	env := c13Env
	env.Args = append([]string{"sh"}, c.Args...)
	env.Opts = interp.NoGlob
	switch c.Opts {
	case "none":
		env.Opts = 0
	case "silent":
		env.Opts = interp.IgnoreEOF | interp.NoLog | interp.Vi
	}
	if c.Opts != "" && !c.DQ {
		return "", fmt.Errorf("harness: options %q are only used with a double-quoted word", c.Opts)
	}
	if c.NoUnset {
		env.Opts |= interp.NoUnset
	}
	for _, v := range []string{"p", "canary", "c13n"} {
		env.Unset(v)
	}
	if c.Set {
		env.Set("p", c.Value)
	}
	if c.IFSSet {
		env.Set("IFS", c.IFS)
	} else {
		env.Unset("IFS")
	}
	for i, a := range c.Word {
		if a.Kind == "var" || a.Kind == "dqvar" {
			env.Set(fmt.Sprintf("w%d", i), a.Text)
		}
	}
	before := fmt.Sprint(env.Args, env.Opts)
	snap := oracleSnapshot(word)
	var got []string
	var gerr error
	if e := guard(func() error { got, gerr = env.Expand(word, 0); return nil }); e != nil {
		return "", fmt.Errorf("Expand(%s) %v\ncase: %+v", c.source(), e, c)
	}
	if after := fmt.Sprint(env.Args, env.Opts); after != before {
		return "", fmt.Errorf("Expand(%s) changed Args/Opts: %s -> %s", c.source(), before, after)
	}
	if oracleSnapshot(word) != snap {
		return "", fmt.Errorf("Expand(%s) changed the word it was given", c.source())
	}
	m := c13Expect(c)
	if m.Skip != "" {
		return m.Skip, nil
	}
	desc := fmt.Sprintf("Expand(%s) with p set=%v %q, args %q, nounset=%v options=%q, IFS set=%v %q", c.source(), c.Set, c.Value, c.Args, c.NoUnset, c.Opts, c.IFSSet, c.IFS)
	if m.Err != "" {
		pe, ok := gerr.(interp.ParamExpError)
		if !ok {
			return "", fmt.Errorf("%s = %q, %v; want a ParamExpError (%s)", desc, got, gerr, m.Err)
		}
		if m.Err == "indicate" && (m.ErrMsg != "" || m.WordUsed) && pe.Msg != m.ErrMsg {
			return "", fmt.Errorf("%s: error message %q, want the expansion of the word %q (a word that is there, but expands to nothing, is not an omitted word)", desc, pe.Msg, m.ErrMsg)
		}
		if m.Err == "indicate" && !m.WordUsed && pe.Msg == "" {
			return "", fmt.Errorf("%s: no error message, although the word is omitted (a default message is to be given)", desc)
		}
		if v, set := env.Get("p"); c.Param == "p" && !c.Set && set {
			return "", fmt.Errorf("%s returned an error but assigned p=%q", desc, v.Value)
		}
	} else {
		if gerr != nil {
			return "", fmt.Errorf("%s: unexpected error %v, want %q", desc, gerr, m.Fields)
		}
		if !(len(got) == 0 && len(m.Fields) == 0) && !reflect.DeepEqual(got, m.Fields) {
			return "", fmt.Errorf("%s = %q, want %q", desc, got, m.Fields)
		}
		if c.Param == "p" {
			v, set := env.Get("p")
			switch {
			case m.Assign != nil && (!set || v.Value != *m.Assign):
				return "", fmt.Errorf("%s: afterwards p=%q (set=%v), want %q", desc, v.Value, set, *m.Assign)
			case m.Assign == nil && (set != c.Set || v.Value != map[bool]string{true: c.Value}[c.Set]):
				return "", fmt.Errorf("%s: p changed to %q (set=%v)", desc, v.Value, set)
			}
		}
	}
	// the word is expanded only when it is used, and then once
	counts := 0
	for _, a := range c.Word {
		if a.Kind == "count" {
			counts++
		}
	}
	if counts > 0 && !strings.ContainsAny(c.Op, "%#") && gerr == nil {
		want := ""
		if m.WordUsed {
			want = strconv.Itoa(counts)
		}
		if v, _ := env.Get("c13n"); v.Value != want {
			return "", fmt.Errorf("%s: the word steps a counter %d time(s); afterwards the counter is %q, want %q (used=%v)", desc, counts, v.Value, want, m.WordUsed)
		}
	}
	for _, a := range c.Word {
		if a.Kind == "canary" && !strings.ContainsAny(c.Op, "%#") {
			if _, set := env.Get("canary"); set != m.WordUsed {
				return "", fmt.Errorf("%s: the operator word was expanded=%v, but the table says used=%v", desc, set, m.WordUsed)
			}
		}
	}
	return "", nil
}

func oracleSnapshot(w ast.Word) string {
	var b strings.Builder
	for _, p := range w {
		fmt.Fprintf(&b, "%T%+v;", p, p)
	}
	return b.String()
}

// c13RawPos: a positional parameter spelled with leading zeros in a word
// built by hand, with the 12 positional parameters v1. ... v12.
type c13RawPos struct {
	Name    string `json:"name"`
	Op      string `json:"op"` // "" | #len | :- | - | :+ | + | % | #
	NoUnset bool   `json:"nounset"`
}

func checkC13RawPos(c c13RawPos) error {
	var args []string
	for i := 1; i <= 12; i++ {
		args = append(args, fmt.Sprintf("v%d.", i))
	}
	env := interp.NewExecEnv("sh", args...)
	env.Opts = interp.NoGlob
	if c.NoUnset {
		env.Opts |= interp.NoUnset
	}
	idx, _ := strconv.Atoi(strings.TrimLeft(c.Name, "0"))
	val, set := "", idx >= 1 && idx <= len(args)
	if set {
		val = args[idx-1]
	}
	pe := &ast.ParamExp{Braces: true, Name: &ast.Lit{Value: c.Name}}
	var want []string
	wantErr := false
	switch c.Op {
	case "":
		want = []string{val}
		wantErr = !set && c.NoUnset
	case "#len":
		pe.Op = "#"
		want = []string{strconv.Itoa(len([]rune(val)))}
		wantErr = !set && c.NoUnset
	case ":-", "-":
		pe.Op, pe.Word = c.Op, ast.Word{&ast.Lit{Value: "W"}}
		want = []string{val}
		if !set {
			want = []string{"W"}
		}
	case ":+", "+":
		pe.Op, pe.Word = c.Op, ast.Word{&ast.Lit{Value: "W"}}
		want = []string{""}
		if set {
			want = []string{"W"}
		}
	case "%":
		pe.Op, pe.Word = c.Op, ast.Word{&ast.Lit{Value: "."}}
		want = []string{strings.TrimSuffix(val, ".")}
		wantErr = !set && c.NoUnset
	case "#":
		pe.Op, pe.Word = c.Op, ast.Word{&ast.Lit{Value: "v"}}
		want = []string{strings.TrimPrefix(val, "v")}
		wantErr = !set && c.NoUnset
	default:
		return fmt.Errorf("harness: unknown operator %q", c.Op)
	}
	var got []string
	var gerr error
	w := ast.Word{&ast.Quote{Tok: `"`, Value: ast.Word{pe}}}
	if e := guard(func() error { got, gerr = env.Expand(w, 0); return nil }); e != nil {
		return fmt.Errorf("Expand of a hand-built \"${%s%s}\" %v", c.Name, c.Op, e)
	}
	if wantErr != (gerr != nil) || gerr == nil && !reflect.DeepEqual(got, want) {
		return fmt.Errorf("Expand of a hand-built \"${%s%s...}\" with 12 positional parameters (v1. ... v12.), nounset=%v: got %q, error %v; want %q, error: %v (the parameter is the one with the decimal number %d)", c.Name, c.Op, c.NoUnset, got, gerr, want, wantErr, idx)
	}
	return nil
}

func init() {
	reg("C13", "rawpos", checkC13RawPos)
	reg("C13", "arith", checkC13Arith)
	reg("C13", "table", func(c c13Case) error {
		_, err := checkC13(c)
		return err
	})
}

var c13Ops = []string{"", ":-", "-", ":=", "=", ":?", "?", ":+", "+", "#len", "%", "%%", "#", "##"}

func c13Key(c c13Case) []string {
	return []string{c.source(), fmt.Sprint(c.Set), c.Value, strings.Join(c.Args, "\x00"), fmt.Sprint(c.NoUnset, c.IFSSet), c.IFS, fmt.Sprint(c.Word), c.Opts}
}

func TestC13(t *testing.T) {
	st := newStats("C13")
	defer st.Write()
	sh, nsh := shard()

	run := func(tt fataler, c c13Case, rapidCase bool) {
		skip, err := checkC13(c)
		if err != nil {
			fail(tt, "C13", "table", c, "%v", err)
		}
		if skip != "" {
			st.Class("not_compared: " + skip)
		}
		if rapidCase {
			st.Eval(skip == "", c13Key(c)...)
		} else if skip == "" {
			st.EvalN(1, 1)
		} else {
			st.EvalN(1, 0)
		}
	}

	// (a) the full product over representative values
	type pstate struct {
		param string
		set   bool
		value string
		args  []string
	}
	states := []pstate{
		{"p", false, "", nil}, {"p", true, "", nil}, {"p", true, "valXl", nil}, {"p", true, "a b", nil}, {"p", true, "é日本", nil},
		{"1", false, "", nil}, {"1", false, "", []string{""}}, {"1", false, "", []string{"valXl", "z"}}, {"2", false, "", []string{"q"}},
		{"10", false, "", []string{"1", "2", "3", "4", "5", "6", "7", "8", "9", "ten"}},
		// positional parameters beyond every integer type
		{"9223372036854775808", false, "", []string{"a"}}, {"18446744073709551616", false, "", nil}, {"99999999999999999999999", false, "", []string{"a", "b"}},
		{"@", false, "", nil}, {"@", false, "", []string{"a b", "c"}}, {"@", false, "", []string{"valXl"}}, {"@", false, "", []string{""}}, {"@", false, "", []string{"", ""}}, {"@", false, "", []string{"", "c"}},
		{"*", false, "", nil}, {"*", false, "", []string{"a b", "c"}}, {"*", false, "", []string{"valXl"}}, {"*", false, "", []string{""}}, {"*", false, "", []string{"", ""}}, {"*", false, "", []string{"", "c"}},
		{"#", false, "", []string{"x", "y"}}, {"?", false, "", nil}, {"0", false, "", nil}, {"!", false, "", nil}, {"$", false, "", nil}, {"-", false, "", nil},
	}
	wordsets := [][]wAtom{
		nil,
		{{"lit", "W"}},
		{{"sq", "W Q"}},
		{{"var", "Y v"}},
		{{"dqvar", "Y v"}},
		{{"canary", ""}},
		{{"lit", "a"}, {"canary", ""}, {"sq", " "}},
		{{"bs", "a"}, {"bs", "}"}, {"bs", " "}},
		{{"nestsq", "W Q"}, {"nestdq", "l"}},
		{{"count", ""}},
		{{"lit", "a b:c"}},
		// words that are there but expand to nothing
		{{"dqvar", ""}},
		{{"var", ""}, {"dqvar", ""}},
	}
	patsets := [][]wAtom{
		nil,
		{{"lit", "X*"}}, {{"lit", "*X"}}, {{"sq", "*"}}, {{"var", "?l"}}, {{"dqvar", "?l"}}, {{"lit", "[a-v]"}}, {{"lit", "*"}}, {{"canary", ""}}, {{"lit", "l{1"}, {"sq", "}"}}, {{"lit", "{2"}, {"sq", "}"}}, {{"lit", "X.l"}}, {{"nestsq", "*"}}, {{"nestsq", "l"}}, {{"lit", "X"}, {"nestdq", "l"}}, {{"nestdq", "*"}},
	}
	type ifsv struct {
		set bool
		val string
	}
	// (digits in IFS: the result of ${#p} and of $# is made of digits)
	ifss := []ifsv{{false, ""}, {true, " \t\n"}, {true, ":"}, {true, ""}, {true, "é "}, {true, "5"}, {true, "13 "}}
	idx := 0
	for _, ps := range states {
		for _, op := range c13Ops {
			ws := wordsets
			switch op {
			case "", "#len":
				ws = [][]wAtom{nil}
			case "%", "%%", "#", "##":
				ws = patsets
			}
			for _, w := range ws {
				for _, dq := range []bool{false, true} {
					for _, nu := range []bool{false, true} {
						for _, iv := range ifss {
							idx++
							if idx%nsh != sh {
								continue
							}
							c := c13Case{Param: ps.param, Set: ps.set, Value: ps.value, Args: ps.args, Op: op, Word: w, DQ: dq, NoUnset: nu, IFSSet: iv.set, IFS: iv.val}
							run(t, c, false)
							if dq && (ps.param == "-" || idx%7 == 0) {
								// without any option letter: $- is set but null
								c.Opts = []string{"none", "silent"}[idx%2]
								run(t, c, false)
								st.Class("no_option_letter")
							}
							if idx%4001 == 0 {
								st.Sample(map[string]any{"word": c.source(), "set": c.Set, "value": c.Value, "args": c.Args, "nounset": c.NoUnset, "ifs_set": c.IFSSet, "ifs": c.IFS})
							}
						}
					}
				}
			}
		}
	}
	// positional parameters spelled with leading zeros, in words built by hand
	// (the parser does not accept the spelling): the parameter is the one with
	// that decimal number
	if sh == 1%nsh {
		var n int64
		for _, name := range []string{"01", "02", "07", "08", "09", "010", "011", "012", "0011", "0012", "013", "00008", "019"} {
			for _, op := range []string{"", ":-", "-", ":+", "+", "#len", "%", "#"} {
				for _, nu := range []bool{false, true} {
					c := c13RawPos{Name: name, Op: op, NoUnset: nu}
					if err := checkC13RawPos(c); err != nil {
						fail(t, "C13", "rawpos", c, "%v", err)
					}
					n++
				}
			}
		}
		st.EvalN(n, n)
		st.ClassN("positional_parameter_spelled_with_leading_zeros", n)
		st.Note("hand-built ${0N...} for 13 spellings with leading zeros x 8 operators x nounset on/off with 12 positional parameters: the parameter with that decimal number")
	}

	// positional and special parameters inside arithmetic expansions
	if sh == 0 {
		args := []string{"7", "30", "3", "4", "5", "6", "07", "8", "9", "100", "11"}
		val := map[string]int{"1": 7, "2": 30, "10": 100, "11": 11, "#": 11, "9": 9}
		k := 0
		for name, v := range val {
			forms := []string{"${" + name + "}"}
			if len(name) == 1 {
				forms = append(forms, "$"+name)
			}
			for _, f := range forms {
				for _, e := range []struct {
					tmpl string
					fn   func(int) int
				}{
					{"%s + 1", func(x int) int { return x + 1 }}, {"%s*2", func(x int) int { return x * 2 }}, {"2 * %s - $#", func(x int) int { return 2*x - 11 }},
					{"%s", func(x int) int { return x }}, {"(%s) % 4", func(x int) int { return x % 4 }}, {"-%s", func(x int) int { return -x }}, {"%s > 8 ? %s : 0", func(x int) int {
						if x > 8 {
							return x
						}
						return 0
					}},
				} {
					expr := strings.ReplaceAll(e.tmpl, "%s", f)
					for _, src := range []string{"$((" + expr + "))", `"$((` + expr + `))"`, "$(( " + expr + " ))"} {
						c := c13Arith{Src: src, Args: args, Want: strconv.Itoa(e.fn(v))}
						if err := checkC13Arith(c); err != nil {
							fail(t, "C13", "arith", c, "%v", err)
						}
						k++
					}
				}
			}
		}
		st.EvalN(int64(k), int64(k))
		st.ClassN("parameters_inside_arithmetic_expansions", int64(k))
		st.Note("%d arithmetic expansions that read $1 $2 $9 ${10} ${11} $# (values that differ from the parameter's own number) in 7 expressions, unquoted and double-quoted", k)
	}
	st.Exhaustive = true
	st.Note("full product: %d parameter states (ordinary unset/null/non-null, positional incl. $10, $@, $*, specials) x 14 operators x operator words (literal, quoted, $var, \"$var\", laziness canary, patterns) x unquoted/double-quoted x nounset on/off x 5 IFS settings = %d cells", len(states), idx)

	// (b) random values and words
	n := 1200000
	if thorough() {
		n = 30000000
	}
	n /= nsh
	valGen := rapid.OneOf(
		rapid.SampledFrom([]string{"", "v", "valXl", "a b", " lead", "trail ", "x:y", "é日本", "*", "a*b", "[a]", "a\nb", ":", "::", "a::b", "\\", "?"}),
		rapid.Custom(func(t *rapid.T) string {
			return strings.Join(rapid.SliceOfN(rapid.SampledFrom([]string{"a", "b", "X", " ", ":", "é", "*", "?", "\t", "l"}), 0, 6).Draw(t, "v"), "")
		}),
	)
	prop := func(rt *rapid.T) {
		var c c13Case
		c.Param = rapid.SampledFrom([]string{"p", "p", "p", "1", "2", "@", "*", "#", "?", "0", "-", "!", "9223372036854775808", "18446744073709551616"}).Draw(rt, "param")
		c.Set = rapid.Bool().Draw(rt, "set")
		if c.Set {
			c.Value = valGen.Draw(rt, "value")
		}
		c.Args = rapid.SliceOfN(valGen, 0, 3).Draw(rt, "args")
		c.Op = rapid.SampledFrom(c13Ops).Draw(rt, "op")
		if c.Op != "" && c.Op != "#len" {
			k := rapid.IntRange(0, 3).Draw(rt, "natoms")
			for i := 0; i < k; i++ {
				kind := rapid.SampledFrom([]string{"lit", "sq", "var", "dqvar", "canary", "bs", "nestsq", "nestdq", "count"}).Draw(rt, "atom")
				text := ""
				switch kind {
				case "lit":
					text = rapid.SampledFrom([]string{"W", "x", "*", "?", "X*", "*l", "[a-z]", "é", ":", "a.b", "l{1", "{2", "a{1,", "a+", "^a", "a b", "a:b", " "}).Draw(rt, "lit")
				case "sq":
					text = rapid.SampledFrom([]string{"W Q", "*", " ", "", "a:b", "é", "}", "}"}).Draw(rt, "sq")
				case "bs":
					text = rapid.SampledFrom([]string{"a", " ", "$", "}", `\`, "*", "'", `"`, "é"}).Draw(rt, "bs")
				case "nestsq", "nestdq":
					text = rapid.SampledFrom([]string{"W Q", "*", "l", "a:b", "é", "?l"}).Draw(rt, "nest")
				case "var", "dqvar":
					text = valGen.Draw(rt, "wv")
				}
				c.Word = append(c.Word, wAtom{kind, text})
			}
		}
		c.DQ = rapid.Bool().Draw(rt, "dq")
		c.NoUnset = rapid.IntRange(0, 3).Draw(rt, "nounset") == 0
		iv := rapid.SampledFrom(ifss).Draw(rt, "ifs")
		c.IFSSet, c.IFS = iv.set, iv.val
		if c.DQ {
			c.Opts = rapid.SampledFrom([]string{"", "", "none", "silent"}).Draw(rt, "opts")
		}
		run(rt, c, true)
		st.Sample(map[string]any{"word": c.source(), "set": c.Set, "value": c.Value, "args": c.Args, "nounset": c.NoUnset, "ifs_set": c.IFSSet, "ifs": c.IFS})
	}
	runRapid(t, n, prop)
}
