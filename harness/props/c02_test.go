package props

import (
	"fmt"
	"reflect"
	"sort"
	"strings"
	"testing"

	"github.com/hattya/go.sh/parser"
	"pgregory.net/rapid"

	"verif/gen"
	"verif/oracle"
)

// C02 — grammatical programs are accepted and the AST mirrors the derivation.

type c02Case struct {
	Src      string   `json:"src"`
	Want     string   `json:"want"` // Exact skeleton of the one command
	Comments []string `json:"comments"`
	// Kind is how the source is handed over (see mkSource); "" = as a string.
	Kind string `json:"kind,omitempty"`
}

func checkC02(c c02Case) error {
	src, consumed := mkSource(c.Kind, c.Src)
	cmds, comments, err := parser.ParseCommands(nil, "c02", src)
	if err != nil {
		return fmt.Errorf("grammatical program rejected (source kind %q): %v\nsrc: %q", c.Kind, err, c.Src)
	}
	if n := consumed(); n >= 0 && n != len(c.Src) {
		return fmt.Errorf("the program is the whole source, but the %s was left at offset %d of %d\nsrc: %q", c.Kind, n, len(c.Src), c.Src)
	}
	if len(cmds) != 1 {
		return fmt.Errorf("got %d commands, want 1\nsrc: %q", len(cmds), c.Src)
	}
	got := oracle.Command(cmds[0], oracle.Exact)
	if got != c.Want {
		return fmt.Errorf("AST differs from the derivation\nsrc:  %q\ngot:  %s\nwant: %s\ndiff: %s", c.Src, got, c.Want, firstDiff(got, c.Want))
	}
	gc := oracle.Comments(comments)
	if !(len(gc) == 0 && len(c.Comments) == 0) && !reflect.DeepEqual(gc, c.Comments) {
		return fmt.Errorf("comments differ\nsrc:  %q\ngot:  %q\nwant: %q", c.Src, gc, c.Comments)
	}
	return nil
}

func firstDiff(a, b string) string {
	i := 0
	for i < len(a) && i < len(b) && a[i] == b[i] {
		i++
	}
	lo := i - 30
	if lo < 0 {
		lo = 0
	}
	cut := func(s string) string {
		hi := i + 50
		if hi > len(s) {
			hi = len(s)
		}
		if lo > len(s) {
			return ""
		}
		return s[lo:hi]
	}
	return fmt.Sprintf("at %d: got ...%s... want ...%s...", i, cut(a), cut(b))
}

func init() { reg("C02", "derivation", checkC02) }

func commentSkels(cs []gen.Comment) []string {
	var out []string
	for _, c := range cs {
		out = append(out, "#"+fmt.Sprintf("%q", c.Text))
	}
	return out
}

func genOpts(extra ...string) gen.Opts {
	o := gen.Opts{Exclude: map[string]bool{}}
	for k := range excluded {
		o.Exclude[k] = true
	}
	for _, e := range extra {
		o.Exclude[e] = true
	}
	return o
}

func c02NonTrivial(p *gen.Program) bool {
	kinds := 0
	nonLit := false
	for k := range p.Feat {
		if strings.HasPrefix(k, "kind:") && k != "kind:simple" {
			kinds++
		}
		if strings.HasPrefix(k, "word:") && k != "word:lit" {
			nonLit = true
		}
	}
	return kinds >= 2 || nonLit || p.Feat["reserved_as_word"] > 0 || p.Feat["quoted_reserved_word"] > 0
}

func featStats(st *Stats, p *gen.Program) {
	for k, v := range p.Feat {
		if strings.HasPrefix(k, "excluded:") {
			for i := 0; i < v; i++ {
				st.Exclude(strings.TrimPrefix(k, "excluded:"))
			}
			continue
		}
		st.ClassN(k, int64(v))
	}
}

func TestC02(t *testing.T) {
	st := newStats("C02")
	defer st.Write()
	sh, nsh := shard()

	kind, trim := "", false
	run := func(tt fataler, p *gen.Program, lay gen.Layout, rapidCase bool) {
		r := gen.Render(p.Stream, lay)
		c := c02Case{Src: r.Src, Want: p.Skel, Comments: commentSkels(r.Comments), Kind: kind}
		if trim && p.Feat["heredoc"] == 0 && strings.HasSuffix(c.Src, "\n") && !strings.HasSuffix(c.Src, "\\\n") {
			// the final newline is optional
			c.Src = strings.TrimSuffix(c.Src, "\n")
			st.Class("source_without_final_newline")
		}
		if kind != "" {
			st.Class("source_kind_" + kind)
		}
		jr.begin("C02", "derivation", c)
		err := checkC02(c)
		jr.end()
		if err != nil {
			fail(tt, "C02", "derivation", c, "%v", err)
		}
		nt := c02NonTrivial(p)
		if rapidCase {
			st.Eval(nt, c.Src)
			st.Sample(c.Src)
		} else {
			n := int64(0)
			if nt {
				n = 1
			}
			st.EvalN(1, n)
		}
		featStats(st, p)
	}

	// (a) systematic: every construct, and every (outer construct, slot, inner
	// construct) pair, in single-line and multi-line form
	if sh == 0 {
		n := 0
		seen := map[string]bool{}
		for k1 := 0; k1 < 19; k1++ {
			for pos := 0; pos < 5; pos++ {
				for k2 := 0; k2 < 19; k2++ {
					for _, fixed := range []map[string]int{
						nil,
						{"cl_last_term": 2},               // no separator before the closer where the grammar allows
						{"cl_last_term": 1, "cl_term": 1}, // newlines
						{"pipe_n": 4},
						{"andor_n": 4},
						{"compound_redirs": 3},
						{"cl_n": 3, "cl_term": 2},
					} {
						vals := []int{k1}
						for i := 0; i < pos; i++ {
							vals = append(vals, 0)
						}
						vals = append(vals, k2)
						p := gen.Complete(&gen.Script{Key: "cmdkind", Values: vals, Fixed: fixed}, genOpts())
						src := gen.Render(p.Stream, gen.Canonical{}).Src
						if seen[src] {
							continue
						}
						seen[src] = true
						run(t, p, gen.Canonical{}, false)
						n++
						if n%97 == 0 {
							st.Sample(src)
						}
					}
				}
			}
		}
		st.Note("systematic: %d distinct programs from (outer construct x slot x inner construct) x {default, closer-adjacent, newline-separated, pipeline operand, and-or operand, redirected compound, '&' lists}", n)
	}

	// (b) sampled derivations, randomised layout
	n := 250000
	if thorough() {
		n = 5000000
	}
	n /= nsh
	prop := func(rt *rapid.T) {
		o := genOpts()
		o.MaxDepth = rapid.IntRange(1, 4).Draw(rt, "maxdepth")
		o.Budget = rapid.IntRange(2, 14).Draw(rt, "budget")
		p := gen.Complete(gen.RapidChooser{T: rt}, o)
		var lay gen.Layout = gen.Canonical{}
		if rapid.IntRange(0, 3).Draw(rt, "layout") != 0 {
			lay = gen.RandomLayout{T: rt, Comments: true, Conts: !excluded["no_line_continuation"], Linebreaks: true}
		}
		kind = rapid.SampledFrom(append(append([]string{"", "", ""}, scannerKinds...), readerKinds...)).Draw(rt, "kind")
		trim = rapid.IntRange(0, 2).Draw(rt, "trim") == 0
		run(rt, p, lay, true)
		kind, trim = "", false
	}
	runRapid(t, n, prop)
	_ = sort.Strings
}
