package props

import (
	"errors"
	"fmt"
	"io"
	"strings"
	"testing"

	"github.com/hattya/go.sh/ast"
	"github.com/hattya/go.sh/parser"
	"github.com/hattya/go.sh/printer"
	"pgregory.net/rapid"

	"verif/gen"
	"verif/oracle"
)

// C05 — print then parse gives back the same program under all 256 styles.
// C18 — printing is idempotent, deterministic, pure; a failing writer is an error.

// config returns the i-th of the 256 printer configurations; i >= 256 selects
// another indentation width for those that indent with spaces.
func config(i int) printer.Config {
	var c printer.Config
	bit := func(k int) bool { return i>>k&1 == 1 }
	if bit(0) {
		c.Indent = printer.Space
	} else {
		c.Indent = printer.Tab
	}
	if bit(1) {
		// bits 8 and up select another width
		c.Width = []int{2, 1, 4, 8, 16, 33, -1}[((i>>8)&7)%7]
	}
	if bit(2) {
		c.Redir = printer.Before
	} else {
		c.Redir = printer.After
	}
	if bit(3) {
		c.Redir |= printer.Space
	}
	if bit(4) {
		c.Assign = printer.After
	} else {
		c.Assign = printer.Before
	}
	if bit(5) {
		c.Do = printer.Newline
	}
	c.Case = bit(6)
	if bit(7) {
		c.Then = printer.Newline
	}
	// bits 11-13: leave the fields whose documented default was chosen at
	// their zero value instead of naming the default
	if bit(11) && c.Indent == printer.Tab {
		c.Indent = 0
	}
	if bit(12) {
		c.Redir &^= printer.After
	}
	if bit(13) && c.Assign == printer.Before {
		c.Assign = 0
	}
	return c
}

type c05Case struct {
	Src string `json:"src"`
	Cfg int    `json:"config"` // 0..255 (+ 256 x width selector), see config()
}

func parseOne(name, src string) (ast.Command, error) {
	cmds, _, err := parser.ParseCommands(nil, name, src)
	if err != nil {
		return nil, err
	}
	if len(cmds) != 1 {
		return nil, fmt.Errorf("%d commands", len(cmds))
	}
	return cmds[0], nil
}

func fprint(cfg int, n ast.Node) (string, error) {
	var b strings.Builder
	c := config(cfg)
	err := guard(func() error { return c.Fprint(&b, n) })
	return b.String(), err
}

// checkC05: harness errors (the generated source itself is not accepted)
// are reported with the prefix "harness:".
func checkC05(c c05Case) error {
	p, err := parseOne("c05", c.Src)
	if err != nil {
		return fmt.Errorf("harness: source not accepted: %v\nsrc: %q", err, c.Src)
	}
	text, err := fprint(c.Cfg, p)
	if err != nil {
		return fmt.Errorf("Fprint (config %d): %v\nsrc: %q", c.Cfg, err, c.Src)
	}
	rd := strings.NewReader(text)
	cmds, _, err := parser.ParseCommands(nil, "c05-printed", rd)
	if err != nil {
		return fmt.Errorf("printed text is rejected: %v\nconfig %d %+v\nsrc:     %q\nprinted: %q", err, c.Cfg, config(c.Cfg), c.Src, text)
	}
	if len(cmds) != 1 || strings.TrimSpace(text[len(text)-rd.Len():]) != "" {
		return fmt.Errorf("printed text parses into %d commands with %q left over\nconfig %d\nsrc:     %q\nprinted: %q", len(cmds), text[len(text)-rd.Len():], c.Cfg, c.Src, text)
	}
	want := oracle.Command(p, oracle.Sep)
	got := oracle.Command(cmds[0], oracle.Sep)
	if got != want {
		return fmt.Errorf("printed text denotes a different program (config %d %+v)\nsrc:     %q\nprinted: %q\ndiff: %s", c.Cfg, config(c.Cfg), c.Src, text, firstDiff(got, want))
	}
	return nil
}

type failWriter struct {
	n   int
	err error
}

func (w *failWriter) Write(p []byte) (int, error) {
	if len(p) <= w.n {
		w.n -= len(p)
		return len(p), nil
	}
	k := w.n
	w.n = 0
	return k, w.err
}

// WriteString makes the writer an io.StringWriter (like *os.File), so that
// bufio hands large strings to it directly.
func (w *failWriter) WriteString(s string) (int, error) { return w.Write([]byte(s)) }

// richWriter is a failing writer with the whole method set of a buffered
// writer (as *bytes.Buffer or *bufio.Writer have it): whoever uses those
// methods directly has to look at their errors as well.
type richWriter struct{ failWriter }

func (w *richWriter) WriteByte(c byte) error {
	_, err := w.Write([]byte{c})
	return err
}

func (w *richWriter) WriteRune(r rune) (int, error) { return w.Write([]byte(string(r))) }

// plainWriter has Write only.
type plainWriter struct{ w *failWriter }

func (p plainWriter) Write(b []byte) (int, error) { return p.w.Write(b) }

var errWriter = errors.New("injected writer failure")

type c18Case struct {
	Src string `json:"src"`
	Cfg int    `json:"config"`
}

func checkC18(c c18Case) (faults int, err error) {
	p, err := parseOne("c18", c.Src)
	if err != nil {
		return 0, fmt.Errorf("harness: source not accepted: %v\nsrc: %q", err, c.Src)
	}
	before := oracle.Snapshot(p)
	t1, err := fprint(c.Cfg, p)
	if err != nil {
		return 0, fmt.Errorf("Fprint (config %d): %v\nsrc: %q", c.Cfg, err, c.Src)
	}
	if after := oracle.Snapshot(p); after != before {
		return 0, fmt.Errorf("Fprint changed the tree it was given (config %d %+v)\nsrc: %q\ndiff: %s", c.Cfg, config(c.Cfg), c.Src, firstDiff(after, before))
	}
	t1b, err := fprint(c.Cfg, p)
	if err != nil || t1b != t1 {
		return 0, fmt.Errorf("printing the same tree twice gives different bytes (config %d)\nsrc: %q\n1st: %q\n2nd: %q (%v)", c.Cfg, c.Src, t1, t1b, err)
	}
	p2, err := parseOne("c18-printed", t1)
	if err != nil {
		// (that the output denotes the same program is C05's business; but
		// output that is not accepted at all cannot be printed again)
		return 0, fmt.Errorf("the output cannot be re-parsed, so it has no second printing (config %d %+v): %v\nsrc:   %q\nfirst: %q", c.Cfg, config(c.Cfg), err, c.Src, t1)
	}
	t2, err := fprint(c.Cfg, p2)
	if err != nil {
		return 0, fmt.Errorf("Fprint of the re-parsed output (config %d): %v\nsrc: %q", c.Cfg, err, c.Src)
	}
	if t2 != t1 {
		return 0, fmt.Errorf("formatting is not a fix-point (config %d %+v)\nsrc:   %q\nfirst: %q\nagain: %q", c.Cfg, config(c.Cfg), c.Src, t1, t2)
	}
	// a writer that fails after k bytes
	step := 1
	if len(t1) > 400 {
		step = len(t1)/200 + 1
	}
	cfg := config(c.Cfg)
	for k := 0; k < len(t1); k += step {
		var w io.Writer = &failWriter{n: k, err: errWriter}
		switch k % 3 {
		case 1:
			w = &richWriter{failWriter{n: k, err: errWriter}}
		case 2:
			w = plainWriter{&failWriter{n: k, err: errWriter}}
		}
		var werr error
		if e := guard(func() error { werr = cfg.Fprint(w, p); return nil }); e != nil {
			return faults, fmt.Errorf("Fprint with a writer failing after %d bytes: %v\nsrc: %q", k, e, c.Src)
		}
		if werr == nil {
			return faults, fmt.Errorf("Fprint with a writer failing after %d of %d bytes returned a nil error (config %d)\nsrc: %q", k, len(t1), c.Cfg, c.Src)
		}
		if !errors.Is(werr, errWriter) {
			return faults, fmt.Errorf("Fprint with a failing writer returned %v instead of the writer's error\nsrc: %q", werr, c.Src)
		}
		faults++
	}
	if faults > 0 {
		if after := oracle.Snapshot(p); after != before {
			return faults, fmt.Errorf("Fprint with a failing writer left the tree changed (config %d)\nsrc: %q\ndiff: %s", c.Cfg, c.Src, firstDiff(after, before))
		}
	}
	return faults, nil
}

func init() {
	reg("C05", "roundtrip", checkC05)
	reg("C18", "normalform", func(c c18Case) error {
		_, err := checkC18(c)
		return err
	})
	triageFns["C05"] = func(p *gen.Program, r gen.Rendered) error {
		for cfg := 0; cfg < 256; cfg += 37 {
			if err := checkC05(c05Case{Src: r.Src, Cfg: cfg}); err != nil {
				return err
			}
		}
		return nil
	}
	triageFns["C18"] = func(p *gen.Program, r gen.Rendered) error {
		for cfg := 0; cfg < 256; cfg += 51 {
			if _, err := checkC18(c18Case{Src: r.Src, Cfg: cfg}); err != nil {
				return err
			}
		}
		return nil
	}
}

func printerNonTrivial(p *gen.Program, src string) bool {
	compound := 0
	for k, v := range p.Feat {
		if strings.HasPrefix(k, "kind:") && k != "kind:simple" {
			compound += v
		}
	}
	if compound == 0 {
		return false
	}
	return p.Feat["heredoc"] > 0 || strings.Contains(strings.TrimRight(src, "\n"), "\n") || compound >= 2
}

// printerOpts: what the printer properties generate. Programs are restricted
// to those the printer can spell faithfully (see the exclusions).
func printerOpts() gen.Opts {
	return genOpts()
}

func systematicPrograms(fn func(p *gen.Program, src string)) int {
	n := 0
	seen := map[string]bool{}
	for k1 := 0; k1 < 19; k1++ {
		for pos := 0; pos < 4; pos++ {
			for k2 := 0; k2 < 19; k2++ {
				for _, fixed := range []map[string]int{
					nil,
					{"cl_last_term": 1, "cl_term": 1},
					{"cl_last_term": 1, "cl_term": 1, "heredoc": 3, "prefix_n": 3, "prefix_kind": 1},
					{"heredoc": 3, "compound_redirs": 3},
					{"pipe_n": 4, "heredoc": 3, "suffix_n": 1, "suffix_kind": 3, "cl_last_term": 1},
					{"andor_n": 4, "cl_n": 3},
				} {
					vals := []int{k1}
					for i := 0; i < pos; i++ {
						vals = append(vals, 0)
					}
					vals = append(vals, k2)
					p := gen.Complete(&gen.Script{Key: "cmdkind", Values: vals, Fixed: fixed}, printerOpts())
					src := gen.Render(p.Stream, gen.Canonical{}).Src
					if seen[src] {
						continue
					}
					seen[src] = true
					fn(p, src)
					n++
				}
			}
		}
	}
	return n
}

// reservedSources returns programs in which every reserved word stands where
// it is an ordinary word and the printer has to keep it from being read as
// the reserved word: as a command name behind redirections (first, second
// command of a list, inside a clause), and as the first pattern of the
// first, second and third item of a case command (one line and several).
func reservedSources() []string {
	var out []string
	for _, w := range []string{"!", "{", "}", "case", "do", "done", "elif", "else", "esac", "fi", "for", "if", "in", "then", "until", "while"} {
		out = append(out,
			">out "+w+" arg\n",
			"2>&1 <in "+w+"\n",
			"a; >f "+w+" b c\n",
			"if true; then 2>/dev/null "+w+"; fi\n",
			"{ a; >>f "+w+" x; }\n",
			"a | >f "+w+" | b\n",
		)
		if w != "!" && w != "{" && w != "}" {
			out = append(out,
				"case $x in (a) echo a ;; ("+w+") echo b ;; esac\n",
				"case x in a) b;; c) d;; ("+w+"|e) f;; esac\n",
				"case x in\n("+w+") a;;\nb) c;;\n("+w+") d;;\nesac\n",
				"case x in ("+w+") ;; ("+w+") ;; esac\n",
			)
		}
	}
	return out
}

// deepSources returns multi-line programs nested deeper than any fixed
// indentation table would reach (19 levels).
func deepSources() []string {
	open := []string{"{\n", "(\n", "if a; then\n", "while a; do\n", "for i in a; do\n", "case x in\na)\n", "until a; do\n", "f() {\n"}
	close := []string{"}\n", ")\n", "fi\n", "done\n", "done\n", ";;\nesac\n", "done\n", "}\n"}
	var out []string
	for start := 0; start < len(open); start++ {
		for _, mixed := range []bool{false, true} {
			var b strings.Builder
			var stack []int
			for d := 0; d < 19; d++ {
				k := start
				if mixed {
					k = (start + d) % len(open)
				}
				b.WriteString(open[k])
				stack = append(stack, k)
			}
			b.WriteString("b <<E\nbody\nE\n")
			for d := len(stack) - 1; d >= 0; d-- {
				b.WriteString(close[stack[d]])
			}
			out = append(out, b.String())
		}
	}
	return out
}

func TestC05(t *testing.T) {
	st := newStats("C05")
	defer st.Write()
	sh, nsh := shard()

	run := func(tt fataler, p *gen.Program, src string, cfg int, rapidCase bool) {
		c := c05Case{Src: src, Cfg: cfg}
		jr.begin("C05", "roundtrip", c)
		err := checkC05(c)
		jr.end()
		if err != nil && strings.HasPrefix(err.Error(), "harness:") {
			// the program itself is not accepted: that is C02's business
			st.Class("skipped_source_not_accepted")
			return
		}
		if err != nil {
			fail(tt, "C05", "roundtrip", c, "%v", err)
		}
		nt := printerNonTrivial(p, src)
		if rapidCase {
			st.Eval(nt, src, fmt.Sprint(cfg))
		} else if nt {
			st.EvalN(1, 1)
		} else {
			st.EvalN(1, 0)
		}
	}

	// (a) the systematic set under all 256 configurations
	i := 0
	n := systematicPrograms(func(p *gen.Program, src string) {
		i++
		if i%nsh != sh {
			return
		}
		for cfg := 0; cfg < 256; cfg++ {
			run(t, p, src, cfg, false)
		}
		for wsel := 1; wsel < 7; wsel++ {
			// other indentation widths, on a space-indenting configuration
			run(t, p, src, (i*8+wsel*37)%256|3|wsel<<8, false)
			run(t, p, src, (i*8+wsel*37)%256|wsel<<11, false) // zero-valued fields
		}
		if i%53 == 0 {
			st.Sample(map[string]any{"src": src, "configs": "all 256"})
		}
		featStats(st, p)
	})
	if sh == 0 {
		for di, src := range deepSources() {
			for cfg := 0; cfg < 256; cfg += 5 {
				run(t, &gen.Program{Feat: map[string]int{"kind:group": 19}}, src, (cfg+di)%256|(cfg%7)<<8|(cfg%8)<<11, false)
			}
			st.Class("deeply_nested_program")
		}
	}
	for ri, src := range reservedSources() {
		if ri%nsh != sh {
			continue
		}
		for cfg := 0; cfg < 256; cfg += 3 {
			run(t, &gen.Program{Feat: map[string]int{"reserved_as_word": 1}}, src, (cfg+ri)%256|(cfg%7)<<8|(cfg%8)<<11, false)
		}
		st.Class("reserved_word_as_ordinary_word")
	}
	st.Note("systematic: %d programs (outer construct x slot x inner construct, single-line / multi-line / here-document variants) x the complete space of 256 printer configurations", n)

	// (b) sampled programs x 16 drawn configurations
	cnt := 12000
	if thorough() {
		cnt = 400000
	}
	cnt /= nsh
	prop := func(rt *rapid.T) {
		o := printerOpts()
		o.MaxDepth = rapid.IntRange(1, 4).Draw(rt, "maxdepth")
		o.Budget = rapid.IntRange(2, 12).Draw(rt, "budget")
		p := gen.Complete(gen.RapidChooser{T: rt}, o)
		var lay gen.Layout = gen.Canonical{}
		if rapid.IntRange(0, 2).Draw(rt, "layout") != 0 {
			lay = gen.RandomLayout{T: rt, Comments: true, Linebreaks: true}
		}
		src := gen.Render(p.Stream, lay).Src
		base := rapid.IntRange(0, 255).Draw(rt, "config")
		wsel := rapid.SampledFrom([]int{0, 0, 0, 1, 2, 3, 4, 5, 6}).Draw(rt, "width")
		zsel := rapid.SampledFrom([]int{0, 0, 1, 2, 4, 7, 3}).Draw(rt, "zero")
		for k := 0; k < 16; k++ {
			run(rt, p, src, (base+k*37)%256|wsel<<8|zsel<<11, true)
		}
		featStats(st, p)
		st.Sample(map[string]any{"src": src, "first_config": base})
	}
	runRapid(t, cnt, prop)
}

func TestC18(t *testing.T) {
	st := newStats("C18")
	defer st.Write()
	sh, nsh := shard()

	run := func(tt fataler, p *gen.Program, src string, cfg int, rapidCase bool) {
		c := c18Case{Src: src, Cfg: cfg}
		jr.begin("C18", "normalform", c)
		faults, err := checkC18(c)
		jr.end()
		if err != nil && strings.HasPrefix(err.Error(), "harness:") {
			// the program itself is not accepted: that is C02's business
			st.Class("skipped_source_not_accepted")
			return
		}
		if err != nil {
			fail(tt, "C18", "normalform", c, "%v", err)
		}
		nt := printerNonTrivial(p, src)
		if rapidCase {
			st.Eval(nt, src, fmt.Sprint(cfg))
		} else if nt {
			st.EvalN(1, 1)
		} else {
			st.EvalN(1, 0)
		}
		st.ClassN("failing_writer_positions", int64(faults))
		if p.Feat["heredoc"] > 0 {
			st.ClassN("failing_writer_positions_with_heredoc", int64(faults))
		}
	}

	i := 0
	n := systematicPrograms(func(p *gen.Program, src string) {
		i++
		if i%nsh != sh {
			return
		}
		for cfg := 0; cfg < 256; cfg += 3 {
			run(t, p, src, (cfg+i)%256|(cfg%7)<<8|(cfg%8)<<11, false)
		}
		if i%53 == 0 {
			st.Sample(map[string]any{"src": src, "configs": "every third of 256"})
		}
	})
	st.Note("systematic: %d programs x 86 of the 256 printer configurations (rotating), each with a writer failing after every k bytes", n)
	if sh == 0 {
		for di, src := range deepSources() {
			for cfg := 0; cfg < 256; cfg += 17 {
				run(t, &gen.Program{Feat: map[string]int{"kind:group": 19}}, src, (cfg+di)%256|(cfg%7)<<8|(cfg%8)<<11, false)
			}
			st.Class("deeply_nested_program")
		}
	}
	for ri, src := range reservedSources() {
		if ri%nsh != sh {
			continue
		}
		for cfg := 0; cfg < 256; cfg += 5 {
			run(t, &gen.Program{Feat: map[string]int{"reserved_as_word": 1}}, src, (cfg+ri)%256|(cfg%7)<<8|(cfg%8)<<11, false)
		}
		st.Class("reserved_word_as_ordinary_word")
	}
	st.Note("every reserved word as a command name behind redirections (6 places) and as the first pattern of the first, second and third case item (one line and several), under every fifth configuration")

	cnt := 8000
	if thorough() {
		cnt = 300000
	}
	cnt /= nsh
	prop := func(rt *rapid.T) {
		o := printerOpts()
		o.MaxDepth = rapid.IntRange(1, 4).Draw(rt, "maxdepth")
		o.Budget = rapid.IntRange(2, 10).Draw(rt, "budget")
		p := gen.Complete(gen.RapidChooser{T: rt}, o)
		var lay gen.Layout = gen.Canonical{}
		if rapid.IntRange(0, 2).Draw(rt, "layout") != 0 {
			lay = gen.RandomLayout{T: rt, Comments: true, Linebreaks: true}
		}
		src := gen.Render(p.Stream, lay).Src
		if rapid.IntRange(0, 39).Draw(rt, "bigword") == 0 {
			// a word larger than the printer's buffer, so that a chunk is
			// written through to the (failing) writer directly
			src = "'" + strings.Repeat("x", 12000) + "'; " + src
			st.Class("output_larger_than_write_buffer")
		}
		base := rapid.IntRange(0, 255).Draw(rt, "config")
		wsel := rapid.SampledFrom([]int{0, 0, 0, 1, 2, 3, 4, 5, 6}).Draw(rt, "width")
		zsel := rapid.SampledFrom([]int{0, 0, 1, 2, 4, 7, 3}).Draw(rt, "zero")
		for k := 0; k < 8; k++ {
			run(rt, p, src, (base+k*37)%256|wsel<<8|zsel<<11, true)
		}
		featStats(st, p)
		st.Sample(map[string]any{"src": src, "first_config": base})
	}
	runRapid(t, cnt, prop)
}
