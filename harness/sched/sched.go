//go:build verif

// Package sched is a controlled scheduler for go.sh's lexer/parser goroutine
// pairs. go.sh (built with the tag "verif") reports every synchronisation
// point through a hook; the scheduler holds a goroutine at the points after
// which it could run on, lets it into blocking operations, and releases
// exactly one held goroutine at a time, chosen by the schedule. A schedule
// is the sequence of choices made whenever more than one goroutine could run.
package sched

import (
	"bytes"
	"fmt"
	"runtime"
	"strconv"
	"sync"
	"sync/atomic"
	"time"

	"github.com/hattya/go.sh/interp"
	"github.com/hattya/go.sh/parser"
)

// Abstract synchronisation points (the union of parser's and interp's).
const (
	LexBefore = iota
	LexAfter
	RunStart
	RunExitBegin
	RunExitEnd
	EmitBefore
	EmitAfter
	EmitCancel
	PopWaitBefore
	PopWaitAfter
	Push
	Spawn
	JoinBefore
	JoinAfter
	Error
	CancelClosed
	Exit
)

var names = [...]string{"LexBefore", "LexAfter", "RunStart", "RunExitBegin", "RunExitEnd", "EmitBefore", "EmitAfter", "EmitCancel",
	"PopWaitBefore", "PopWaitAfter", "Push", "Spawn", "JoinBefore", "JoinAfter", "Error", "CancelClosed", "Exit"}

var fromParser = map[int]int{
	parser.HkLexBefore: LexBefore, parser.HkLexAfter: LexAfter, parser.HkRunStart: RunStart, parser.HkRunExitBegin: RunExitBegin,
	parser.HkRunExitEnd: RunExitEnd, parser.HkEmitBefore: EmitBefore, parser.HkEmitAfter: EmitAfter, parser.HkEmitCancel: EmitCancel,
	parser.HkPopWaitBefore: PopWaitBefore, parser.HkPopWaitAfter: PopWaitAfter, parser.HkPush: Push, parser.HkSpawn: Spawn,
	parser.HkJoinBefore: JoinBefore, parser.HkJoinAfter: JoinAfter, parser.HkError: Error, parser.HkCancelClosed: CancelClosed, parser.HkParseExit: Exit,
}

var fromInterp = map[int]int{
	interp.HkLexBefore: LexBefore, interp.HkLexAfter: LexAfter, interp.HkRunStart: RunStart, interp.HkRunExitBegin: RunExitBegin,
	interp.HkRunExitEnd: RunExitEnd, interp.HkEmitBefore: EmitBefore, interp.HkEmitAfter: EmitAfter, interp.HkEmitCancel: EmitCancel,
	interp.HkSpawn: Spawn, interp.HkError: Error, interp.HkCancelClosed: CancelClosed, interp.HkEvalExit: Exit,
	interp.HkJoinBefore: JoinBefore, interp.HkJoinAfter: JoinAfter,
}

// current is the scheduler in charge, or nil (goroutines run freely).
var current atomic.Pointer[Sched]

// perturb, when non-zero, makes every hook spin for a pseudo-random time
// without any synchronisation (race-detector mode).
var perturb atomic.Uint64

func init() {
	parser.VerifHook = func(id uintptr, point int) { dispatch(id, fromParser[point]) }
	interp.VerifHook = func(id uintptr, point int) { dispatch(id|1<<62, fromInterp[point]) }
}

var sink uint64

func dispatch(id uintptr, point int) {
	if s := current.Load(); s != nil {
		s.hook(id, point)
		return
	}
	if seed := perturb.Load(); seed != 0 {
		// an unsynchronised delay: no locks, no channels, no atomics on shared
		// state (so that no happens-before edge is added)
		x := uint64(id)*0x9E3779B97F4A7C15 ^ uint64(point+1)*0xBF58476D1CE4E5B9 ^ seed ^ uint64(time.Now().UnixNano())
		x ^= x >> 29
		n := x % 2048
		if x>>20&7 == 0 {
			runtime.Gosched()
		}
		var acc uint64
		for i := uint64(0); i < n; i++ {
			acc += i * x
		}
		if acc == 1 {
			sink++
		}
	}
}

// SetPerturb switches the race-detector mode on (seed != 0) or off.
func SetPerturb(seed uint64) { perturb.Store(seed) }

type status int

const (
	stRunning status = iota
	stHeld
	stBlocked
	stGone
)

const (
	roleParser = 0
	roleLexer  = 1
)

type party struct {
	g        uintptr
	id       uintptr
	role     int
	st       status
	at       int
	expected bool // blocked, but its operation has been enabled: in transit
	wake     chan struct{}
}

func goid() uintptr {
	var buf [64]byte
	b := buf[:runtime.Stack(buf[:], false)]
	b = bytes.TrimPrefix(b, []byte("goroutine "))
	if i := bytes.IndexByte(b, ' '); i > 0 {
		b = b[:i]
	}
	n, _ := strconv.ParseUint(string(b), 10, 64)
	return uintptr(n)
}

// Sched is one controlled run.
type Sched struct {
	mu            sync.Mutex
	byG           map[uintptr]*party
	order         []*party
	parserOf      map[uintptr]uintptr
	lexerOf       map[uintptr]uintptr
	seq           map[uintptr]int
	cancelled     map[uintptr]bool
	selfCancelled map[uintptr]bool // cancelled by the lexer goroutine itself
	buffered      map[uintptr]bool // a here-document wake-up is waiting in the channel
	pending       int              // spawned goroutines that have not reached their first hook
	choices       []int
	sizes         []int // sizes of the choice sets met
	nchoice       int
	trace         []string
	keepTrace     bool
	changed       chan struct{}
	main          uintptr // goroutine that called the entry point
	exited        bool    // the entry point has passed its Exit hook
	nevents       int     // hook calls so far
	aliveAtExit   []string
	lateHandOver  []string // tokens handed over by a lexer whose parser had already failed and cancelled it
}

// New returns a scheduler that follows the given choices (index into the set
// of runnable goroutines at each choice point; missing entries mean 0).
func New(choices []int, keepTrace bool) *Sched {
	return &Sched{
		byG: map[uintptr]*party{}, parserOf: map[uintptr]uintptr{}, lexerOf: map[uintptr]uintptr{}, seq: map[uintptr]int{},
		cancelled: map[uintptr]bool{}, selfCancelled: map[uintptr]bool{}, buffered: map[uintptr]bool{}, choices: choices, keepTrace: keepTrace, changed: make(chan struct{}, 1),
	}
}

func roleOf(point int) int {
	switch point {
	case LexBefore, LexAfter, Push, Exit, Spawn, JoinBefore, JoinAfter:
		return roleParser
	}
	return roleLexer
}

func (s *Sched) get(id uintptr, role int) *party {
	g := goid()
	p := s.byG[g]
	if p == nil {
		p = &party{g: g, st: stRunning, wake: make(chan struct{}, 1)}
		s.byG[g] = p
		s.order = append(s.order, p)
	}
	if _, ok := s.seq[id]; !ok {
		s.seq[id] = len(s.seq) + 1
	}
	p.id, p.role = id, role
	if role == roleParser {
		s.parserOf[id] = g
	} else {
		s.lexerOf[id] = g
	}
	return p
}

func (s *Sched) lookup(id uintptr, role int) *party {
	var g uintptr
	var ok bool
	if role == roleParser {
		g, ok = s.parserOf[id]
	} else {
		g, ok = s.lexerOf[id]
	}
	if !ok {
		return nil
	}
	p := s.byG[g]
	if p.id != id || p.role != role {
		return nil // that goroutine is currently acting in another role
	}
	return p
}

func rn(r int) string {
	if r == roleParser {
		return "P"
	}
	return "L"
}

func (s *Sched) log(format string, a ...any) {
	if s.keepTrace && len(s.trace) < 100000 {
		s.trace = append(s.trace, fmt.Sprintf(format, a...))
	}
}

// pick releases one held party if nobody is running or in transit.
func (s *Sched) pick() {
	if s.pending > 0 {
		return
	}
	var held []*party
	for _, p := range s.order {
		switch {
		case p.st == stRunning:
			return
		case p.st == stBlocked && p.expected:
			return
		case p.st == stHeld:
			held = append(held, p)
		}
	}
	if len(held) == 0 {
		return
	}
	i := 0
	if len(held) > 1 {
		s.sizes = append(s.sizes, len(held))
		if s.nchoice < len(s.choices) {
			i = s.choices[s.nchoice] % len(held)
		}
		s.nchoice++
	}
	p := held[i]
	p.st = stRunning
	s.log("  run %s%d@%s (of %d)", rn(p.role), s.seq[p.id], names[p.at], len(held))
	p.wake <- struct{}{}
}

func (s *Sched) signal() {
	select {
	case s.changed <- struct{}{}:
	default:
	}
}

func (s *Sched) hook(id uintptr, point int) {
	s.mu.Lock()
	s.nevents++
	if point == Error || point == CancelClosed {
		if point == CancelClosed {
			s.cancelled[id] = true
			if g, ok := s.lexerOf[id]; ok && g == goid() {
				// the lexer stopped itself (an error of its own)
				s.selfCancelled[id] = true
			}
			if l := s.lookup(id, roleLexer); l != nil && l.st == stBlocked && (l.at == EmitBefore || l.at == PopWaitBefore) {
				// the select in emit / in the here-document wait sees the cancellation
				l.expected = true
			}
		}
		s.log("%s(%d)", names[point], s.seq[id])
		s.mu.Unlock()
		return
	}
	role := roleOf(point)
	p := s.get(id, role)
	p.at = point
	p.expected = false
	if point == RunStart {
		s.pending--
	}
	s.log("%s%d@%s", rn(role), s.seq[id], names[point])
	switch point {
	case Spawn:
		if s.main == 0 {
			s.main = p.g
		}
		// a new lexer: its identifier (an address) may have belonged to a
		// lexer that is gone; forget what was known about that one
		delete(s.lexerOf, id)
		delete(s.cancelled, id)
		delete(s.selfCancelled, id)
		delete(s.buffered, id)
		s.pending++
		p.st = stRunning
		s.mu.Unlock()
		return
	case Push:
		// the wake-up is a non-blocking send on a channel of capacity 1: it
		// either releases a lexer that waits, or stays buffered for the next wait
		if l := s.lookup(id, roleLexer); l != nil && l.st == stBlocked && l.at == PopWaitBefore {
			l.expected = true
		} else {
			s.buffered[id] = true
		}
		p.st = stRunning
		s.mu.Unlock()
		return
	case LexBefore, EmitBefore, PopWaitBefore, JoinBefore:
		if point == PopWaitBefore {
			// the window between "the stack is empty" and the wait for the
			// parser's wake-up is a scheduling point of its own: hold here first,
			// so that the push can happen before the wait begins
			p.st = stHeld
			s.pick()
			s.mu.Unlock()
			<-p.wake
			s.mu.Lock()
		}
		p.st = stBlocked
		switch point {
		case LexBefore:
			if l := s.lookup(id, roleLexer); l != nil {
				if l.st == stBlocked && l.at == EmitBefore && !l.expected {
					l.expected, p.expected = true, true
				} else if l.st == stGone || l.at == RunExitBegin || l.at == RunExitEnd {
					p.expected = true
				}
			}
		case EmitBefore:
			if q := s.lookup(id, roleParser); q != nil && q.st == stBlocked && q.at == LexBefore && !q.expected {
				q.expected, p.expected = true, true
			} else if s.cancelled[id] {
				p.expected = true
			}
		case JoinBefore:
			if l := s.lookup(id, roleLexer); l != nil && (l.st == stGone || l.at == RunExitBegin || l.at == RunExitEnd) {
				p.expected = true
			}
		case PopWaitBefore:
			if s.buffered[id] {
				s.buffered[id] = false
				p.expected = true
			} else if s.cancelled[id] {
				p.expected = true
			}
		}
		s.pick()
		s.mu.Unlock()
		return
	case RunExitBegin:
		if q := s.lookup(id, roleParser); q != nil && q.st == stBlocked && (q.at == LexBefore || q.at == JoinBefore) {
			q.expected = true
		}
		p.st = stRunning
		s.mu.Unlock()
		return
	case RunExitEnd:
		p.st = stGone
		s.pick()
		s.signal()
		s.mu.Unlock()
		return
	case EmitAfter:
		if s.cancelled[id] && !s.selfCancelled[id] {
			// nobody in go.sh asks a cancelled lexer for a token: whoever took
			// this one lets the lexer run on over input the parser never saw
			s.lateHandOver = append(s.lateHandOver, fmt.Sprintf("L%d", s.seq[id]))
		}
	case EmitCancel:
		// the select in emit had both the hand-over and the cancellation
		// ready and took the cancellation: the parser that was counted as
		// receiving is still waiting (until the lexer exits)
		if q := s.lookup(id, roleParser); q != nil && q.st == stBlocked && q.at == LexBefore {
			q.expected = false
		}
	case Exit:
		if p.g == s.main && !s.exited {
			// who is still alive when the entry point is about to return?
			s.exited = true
			for _, q := range s.order {
				if q != p && q.st != stGone && q.at != RunExitBegin {
					s.aliveAtExit = append(s.aliveAtExit, fmt.Sprintf("%s%d@%s", rn(q.role), s.seq[q.id], names[q.at]))
				}
			}
		}
	}
	// hold points: LexAfter EmitAfter EmitCancel PopWaitAfter JoinAfter RunStart Exit
	p.st = stHeld
	s.pick()
	s.mu.Unlock()
	<-p.wake
}

// Result of a controlled run.
type Result struct {
	AliveAtExit  []string // goroutines of the call that had not exited when it was about to return
	Drained      bool     // all of them exited afterwards
	Deadlock     bool     // nobody could run before the call returned
	LateHandOver []string // lexers that handed a token over after they had been cancelled
	Choices      []int    // sizes of the choice sets met (for enumerating schedules)
	Trace        []string
}

// runDeadline: how long a controlled run may take before it is given up as
// stuck (and half of it for the goroutines that outlive the call). Wall-clock
// time is no evidence on a busy machine: callers believe a verdict only after
// it has been repeated with Patience.
var runDeadline atomic.Int64

func init() { runDeadline.Store(int64(6 * time.Second)) }

// Patience runs fn with the deadline d in force.
func Patience(d time.Duration, fn func()) {
	old := runDeadline.Swap(int64(d))
	defer runDeadline.Store(old)
	fn()
}

// Run executes fn (which calls one go.sh entry point) under the scheduler
// and then lets every goroutine it started run to completion.
func Run(choices []int, keepTrace bool, fn func()) Result {
	s := New(choices, keepTrace)
	current.Store(s)
	done := make(chan struct{})
	go func() {
		defer close(done)
		fn()
	}()
	var res Result
	deadline := time.After(time.Duration(runDeadline.Load()))
wait:
	for {
		select {
		case <-done:
			break wait
		case <-s.changed:
		case <-time.After(300 * time.Millisecond):
			// declared stuck only when the bookkeeping says nobody can run and
			// nothing at all happens for three seconds
			if s.stuck() {
				n := s.events()
				still := true
				for i := 0; i < 10 && still; i++ {
					time.Sleep(300 * time.Millisecond)
					select {
					case <-done:
						still = false
					default:
						still = s.stuck() && s.events() == n
					}
				}
				if still {
					res.Deadlock = true
					break wait
				}
			}
		case <-deadline:
			res.Deadlock = true
			break wait
		}
	}
	// drain: the caller is gone; release whatever is held until all lexer
	// goroutines have exited
	s.mu.Lock()
	if p := s.byG[s.main]; p != nil {
		p.st = stGone
	}
	s.pick()
	s.mu.Unlock()
	drainDeadline := time.After(time.Duration(runDeadline.Load()) / 2)
	for {
		s.mu.Lock()
		all := s.pending == 0
		for _, p := range s.order {
			if p.g != s.main && p.st != stGone {
				all = false
			}
		}
		if !all {
			s.pick()
		}
		s.mu.Unlock()
		if all {
			res.Drained = true
			break
		}
		select {
		case <-s.changed:
		case <-time.After(5 * time.Millisecond):
		case <-drainDeadline:
			goto out
		}
	}
out:
	current.Store(nil)
	if res.Deadlock {
		// release everything so that the goroutines do not stay parked on the scheduler
		s.mu.Lock()
		for _, p := range s.order {
			if p.st == stHeld {
				p.st = stRunning
				p.wake <- struct{}{}
			}
		}
		s.mu.Unlock()
	}
	s.mu.Lock()
	if res.Deadlock {
		s.keepTrace = true
		for _, p := range s.order {
			s.trace = append(s.trace, fmt.Sprintf("STATE g%d %s%d@%s st=%d expected=%v", p.g, rn(p.role), s.seq[p.id], names[p.at], p.st, p.expected))
		}
		s.trace = append(s.trace, fmt.Sprintf("STATE pending=%d", s.pending))
	}
	res.AliveAtExit = s.aliveAtExit
	res.LateHandOver = s.lateHandOver
	res.Choices = append([]int{}, s.sizes...)
	res.Trace = s.trace
	s.mu.Unlock()
	return res
}

func (s *Sched) events() int {
	s.mu.Lock()
	defer s.mu.Unlock()
	return s.nevents
}

// stuck reports whether no party can make progress.
func (s *Sched) stuck() bool {
	s.mu.Lock()
	defer s.mu.Unlock()
	if s.pending > 0 {
		return false
	}
	for _, p := range s.order {
		if p.st == stRunning || p.st == stHeld || p.st == stBlocked && p.expected {
			return false
		}
	}
	return len(s.order) > 0
}

// Enumerate calls run for every schedule of the input, depth first, up to
// limit runs. run receives the choices and returns the sizes of the choice
// sets it met. It returns the number of runs and whether the space was
// exhausted.
func Enumerate(limit int, run func(choices []int) (sizes []int)) (int, bool) {
	type item struct{ c []int }
	stack := []item{{nil}}
	n := 0
	for len(stack) > 0 {
		if n >= limit {
			return n, false
		}
		it := stack[len(stack)-1]
		stack = stack[:len(stack)-1]
		sizes := run(it.c)
		n++
		for i := len(it.c); i < len(sizes); i++ {
			for alt := 1; alt < sizes[i]; alt++ {
				nc := append(append([]int{}, it.c...), make([]int, i-len(it.c))...)
				nc = append(nc, alt)
				stack = append(stack, item{nc})
			}
		}
	}
	return n, true
}
