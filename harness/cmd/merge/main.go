// Command merge prints the number of distinct 64-bit hashes in the given
// files (little-endian uint64 arrays written by the test shards).
package main

import (
	"encoding/binary"
	"fmt"
	"os"
	"sort"
)

func main() {
	var all []uint64
	for _, f := range os.Args[1:] {
		b, err := os.ReadFile(f)
		if err != nil {
			continue
		}
		for i := 0; i+8 <= len(b); i += 8 {
			all = append(all, binary.LittleEndian.Uint64(b[i:]))
		}
	}
	sort.Slice(all, func(i, j int) bool { return all[i] < all[j] })
	n := 0
	for i, h := range all {
		if i == 0 || h != all[i-1] {
			n++
		}
	}
	fmt.Println(n)
}
