// Command skel prints the Exact (or, with -sep, the Sep) skeleton and the
// comments of each source given as argument. Development aid for writing
// replay files.
package main

import (
	"encoding/json"
	"fmt"
	"os"

	"github.com/hattya/go.sh/parser"

	"verif/oracle"
)

func main() {
	mode := oracle.Exact
	for _, a := range os.Args[1:] {
		if a == "-sep" {
			mode = oracle.Sep
			continue
		}
		cmds, comments, err := parser.ParseCommands(nil, "skel", a)
		if err != nil {
			fmt.Println("error:", err)
			continue
		}
		for _, c := range cmds {
			s := oracle.Command(c, mode)
			b, _ := json.Marshal(s)
			fmt.Printf("%s\n%s\n", s, b)
		}
		fmt.Println(oracle.Comments(comments))
	}
}
