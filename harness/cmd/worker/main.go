// Command worker executes go.sh entry points on behalf of the test process,
// one JSON request per line on stdin, one JSON answer per line on stdout. It
// exists because go.sh runs its lexers in background goroutines: a panic
// there cannot be recovered by the caller and kills the process, and a hang
// blocks it. The parent notices both.
package main

import (
	"bufio"
	"bytes"
	"encoding/json"
	"fmt"
	"io"
	"os"
	"reflect"
	"strings"
	"unicode/utf8"

	"github.com/hattya/go.sh/ast"
	"github.com/hattya/go.sh/interp"
	"github.com/hattya/go.sh/parser"
	"github.com/hattya/go.sh/pattern"
	"github.com/hattya/go.sh/printer"

	"verif/wproto"
)

type plainReader struct{ r io.Reader }

func (p plainReader) Read(b []byte) (int, error) { return p.r.Read(b) }

type runeScanner struct {
	s    string
	off  int
	last int
}

func (c *runeScanner) ReadRune() (rune, int, error) {
	if c.off >= len(c.s) {
		c.last = 0
		return 0, 0, io.EOF
	}
	r, w := utf8.DecodeRuneInString(c.s[c.off:])
	c.off += w
	c.last = w
	return r, w, nil
}

func (c *runeScanner) UnreadRune() error {
	if c.last == 0 {
		return fmt.Errorf("nothing to unread")
	}
	c.off -= c.last
	c.last = 0
	return nil
}

// lenientScanner is a RuneScanner whose UnreadRune, when the last operation
// was not a successful ReadRune (end of input), steps back over the last rune
// read, which the io.RuneScanner contract allows.
type lenientScanner struct {
	s    string
	off  int
	last int
}

func (c *lenientScanner) ReadRune() (rune, int, error) {
	if c.off >= len(c.s) {
		return 0, 0, io.EOF
	}
	r, w := utf8.DecodeRuneInString(c.s[c.off:])
	c.off += w
	c.last = w
	return r, w, nil
}

func (c *lenientScanner) UnreadRune() error {
	if c.last == 0 {
		return fmt.Errorf("nothing to unread")
	}
	c.off -= c.last
	c.last = 0
	return nil
}

// garbageScanner returns a rune other than 0 together with io.EOF.
type garbageScanner struct{ runeScanner }

func (c *garbageScanner) ReadRune() (rune, int, error) {
	r, w, err := c.runeScanner.ReadRune()
	if err != nil {
		return 'x', 0, err
	}
	return r, w, nil
}

// readerFunc is an io.Reader whose dynamic type is not comparable.
type readerFunc func([]byte) (int, error)

func (f readerFunc) Read(p []byte) (int, error) { return f(p) }

// sliceReader is an io.Reader (a struct value with a slice field) that is not comparable either.
type sliceReader struct {
	r   *strings.Reader
	pad []byte
}

func (s sliceReader) Read(p []byte) (int, error) { return s.r.Read(p) }

// errClosed is how a source reports its end when it wraps the sentinel: it
// is not io.EOF itself, so for the parser it is a failing read.
var errClosed = fmt.Errorf("source closed: %w", io.EOF)

// wrappedEOFReader ends with an error that wraps io.EOF.
type wrappedEOFReader struct{ r *strings.Reader }

func (w wrappedEOFReader) Read(p []byte) (int, error) {
	n, err := w.r.Read(p)
	if err == io.EOF {
		err = errClosed
	}
	return n, err
}

// wrappedEOFScanner is the same as an io.RuneScanner.
type wrappedEOFScanner struct{ runeScanner }

func (c *wrappedEOFScanner) ReadRune() (rune, int, error) {
	r, w, err := c.runeScanner.ReadRune()
	if err == io.EOF {
		err = errClosed
	}
	return r, w, err
}

// errorList is an error whose dynamic type cannot be compared with ==.
type errorList []string

func (e errorList) Error() string { return strings.Join(e, "; ") }

// failingReader delivers the first half of the text and then fails with an
// error list.
type failingReader struct {
	r    *strings.Reader
	left int
}

func (f *failingReader) Read(p []byte) (int, error) {
	if f.left <= 0 {
		return 0, errorList{"disk", "gone"}
	}
	if len(p) > f.left {
		p = p[:f.left]
	}
	n, err := f.r.Read(p)
	f.left -= n
	return n, err
}

// failingScanner is the same as an io.RuneScanner (it fails after two thirds).
type failingScanner struct {
	runeScanner
	left int
}

func (c *failingScanner) ReadRune() (rune, int, error) {
	if c.left <= 0 {
		c.last = 0
		return 0, 0, errorList{"disk", "gone"}
	}
	c.left--
	return c.runeScanner.ReadRune()
}

func (c *failingScanner) UnreadRune() error {
	if err := c.runeScanner.UnreadRune(); err != nil {
		return err
	}
	c.left++
	return nil
}

func source(kind, s string) interface{} {
	switch kind {
	case "errorlist-reader":
		return &failingReader{r: strings.NewReader(s), left: len(s) / 2}
	case "errorlist-scanner":
		return &failingScanner{runeScanner: runeScanner{s: s}, left: utf8.RuneCountInString(s) * 2 / 3}
	case "wrapped-eof-reader":
		return wrappedEOFReader{strings.NewReader(s)}
	case "wrapped-eof-scanner":
		return &wrappedEOFScanner{runeScanner{s: s}}
	case "lenient":
		return &lenientScanner{s: s}
	case "garbage":
		return &garbageScanner{runeScanner{s: s}}
	case "func-reader":
		return readerFunc(strings.NewReader(s).Read)
	case "slice-reader":
		return sliceReader{r: strings.NewReader(s)}
	case "bytes.Buffer":
		return bytes.NewBufferString(s)
	case "bytes":
		return []byte(s)
	case "reader":
		return plainReader{strings.NewReader(s)}
	case "scanner":
		return &runeScanner{s: s}
	}
	return s
}

func env(r wproto.Req) *interp.ExecEnv {
	switch r.Env {
	case "":
		return nil
	case "empty":
		return interp.NewExecEnv("sh")
	}
	e := interp.NewExecEnv("sh")
	for k, v := range r.Aliases {
		e.Aliases[k] = v
	}
	return e
}

func errType(err error) string {
	if err == nil {
		return ""
	}
	return fmt.Sprintf("%T", err)
}

func handle(r wproto.Req) (resp wproto.Resp) {
	defer func() {
		if e := recover(); e != nil {
			resp.OK = false
			resp.Panic = fmt.Sprint(e)
		}
	}()
	resp.OK = true
	if r.N > 0 {
		r.Src = r.Head + strings.Repeat(r.Unit, r.N) + r.Src
	}
	switch r.Op {
	case "parse":
		var cmds []ast.Command
		var err error
		if r.Cmd {
			var c ast.Command
			c, _, err = parser.ParseCommand("w", source(r.Kind, r.Src))
			if c != nil {
				cmds = []ast.Command{c}
			}
		} else {
			src := source(r.Kind, r.Src)
			cmds, _, err = parser.ParseCommands(env(r), "w", src)
			if r.Again {
				// a second call on the same source object (whatever it finds there)
				parser.ParseCommands(env(r), "w", src)
			}
		}
		resp.NCmds = len(cmds)
		if err != nil {
			resp.Err, resp.ErrTyp = err.Error(), errType(err)
		}
	case "downstream":
		cmds, comments, err := parser.ParseCommands(env(r), "w", r.Src)
		if err != nil {
			resp.Err, resp.ErrTyp = err.Error(), errType(err)
			return
		}
		resp.NCmds = len(cmds)
		resp.Count = downstream(cmds, comments, r, &resp)
	case "eval":
		e := interp.NewExecEnv("sh")
		e.Set("x", "5")
		e.Set("y", "abc")
		_, err := e.Eval(r.Src)
		if err != nil {
			resp.Err, resp.ErrTyp = err.Error(), errType(err)
		}
	case "match":
		_, err := pattern.Match(r.Pats, pattern.Mode(r.Mode), r.Src)
		if err != nil {
			resp.Err, resp.ErrTyp = err.Error(), errType(err)
		}
	case "glob":
		if r.Dir != "" {
			if err := os.Chdir(r.Dir); err != nil {
				resp.Note = "chdir: " + err.Error()
			}
		}
		_, err := pattern.Glob(r.Src)
		if err != nil {
			resp.Err, resp.ErrTyp = err.Error(), errType(err)
		}
	case "option":
		for o := r.Lo; o < r.Hi; o++ {
			_ = interp.Option(o).String()
			resp.Count++
		}
	default:
		resp.OK = false
		resp.Note = "unknown op"
	}
	return
}

var modes = []interp.ExpMode{0, interp.Arith, interp.Assign, interp.Literal, interp.Pattern, interp.Quote, interp.Assign | interp.Quote, interp.Arith | interp.Quote}

// downstream feeds the tree to Pos/End of every node, Fprint under every
// configuration and Expand under every mode.
func downstream(cmds []ast.Command, comments []*ast.Comment, r wproto.Req, resp *wproto.Resp) int {
	n := 0
	if r.Dir != "" {
		os.Chdir(r.Dir)
	}
	var words []ast.Word
	var nodes []ast.Node
	var walk func(v reflect.Value, depth int)
	nodeT := reflect.TypeOf((*ast.Node)(nil)).Elem()
	walk = func(v reflect.Value, depth int) {
		if !v.IsValid() || depth > 400 {
			return
		}
		if v.Kind() == reflect.Interface || v.Kind() == reflect.Ptr {
			if v.IsNil() {
				return
			}
		}
		if v.Type().Implements(nodeT) && v.CanInterface() {
			nd := v.Interface().(ast.Node)
			_ = nd.Pos()
			_ = nd.End()
			n += 2
			if w, ok := nd.(ast.Word); ok {
				words = append(words, w)
			}
			switch nd.(type) {
			case ast.Command, ast.Word, ast.WordPart, *ast.Comment:
				nodes = append(nodes, nd)
			}
		}
		switch v.Kind() {
		case reflect.Interface, reflect.Ptr:
			walk(v.Elem(), depth+1)
		case reflect.Struct:
			for i := 0; i < v.NumField(); i++ {
				if v.Type().Field(i).PkgPath == "" {
					walk(v.Field(i), depth+1)
				}
			}
		case reflect.Slice:
			for i := 0; i < v.Len(); i++ {
				walk(v.Index(i), depth+1)
			}
		}
	}
	for _, c := range cmds {
		walk(reflect.ValueOf(&c).Elem(), 0)
	}
	for _, c := range comments {
		_ = c.Pos()
		_ = c.End()
		n += 2
	}
	for _, c := range cmds {
		for i := int(r.Lo); i < int(r.Hi) && i < 256; i++ {
			cfg := config(i | int(r.Width)<<8 | (i%8)<<11)
			var b bytes.Buffer
			if err := cfg.Fprint(&b, c); err != nil {
				resp.Note = "Fprint: " + err.Error()
			}
			n++
		}
		// style fields are bit sets: any combination of the five styles (and
		// of bits that are no style) is a Config as well
		for k := 0; k < 48; k++ {
			var b bytes.Buffer
			rc := rawConfig(int(r.Lo)*48 + k)
			rc.Fprint(&b, c)
			n++
		}
	}
	// every node can be printed on its own, not only commands
	for ni, nd := range nodes {
		if ni >= 400 {
			break
		}
		for k := 0; k < 3; k++ {
			var b bytes.Buffer
			nc := config((int(r.Lo)+ni*37+k*85)%256 | int(r.Width)<<8)
			nc.Fprint(&b, nd)
			n++
		}
	}
	envs := []*interp.ExecEnv{interp.NewExecEnv("sh", "p1", "", "p 2", ""), interp.NewExecEnv("sh"),
		interp.NewExecEnv("sh", "a", "b"), interp.NewExecEnv("sh", "a", "", "c"), interp.NewExecEnv("sh", "q"), interp.NewExecEnv("sh", "", "")}
	for _, e := range envs {
		e.Set("x", "a b")
		e.Set("HOME", "/nonexistent")
	}
	// the second environment splits at a comma and at a byte that is not valid UTF-8
	envs[1].Set("IFS", "\xff, ")
	envs[1].Set("x", "\xff\xffa,b \xffc")
	// further values of HOME and IFS: null, a lone slash, a trailing slash,
	// unset; IFS of one ill-formed byte, of an incomplete character, null, unset
	envs[2].Set("HOME", "")
	envs[2].Set("IFS", "\xff")
	envs[3].Set("HOME", "/")
	envs[3].Set("IFS", "")
	envs[4].Unset("HOME")
	envs[4].Unset("IFS")
	envs[4].Set("x", "")
	envs[5].Set("HOME", "/h/")
	envs[5].Set("IFS", "\xe2\x82")
	envs[5].Unset("x")
	for wi, w := range words {
		e := envs[wi%len(envs)]
		for ei := 0; ei < len(envs); ei++ {
			if len(words) < 40 {
				e = envs[ei]
			} else if ei == 1 {
				break
			}
			for _, m := range modes {
				for _, opts := range []interp.Option{0, interp.NoUnset} {
					e.Opts = opts
					_, err := e.Expand(w, m)
					n++
					if err != nil {
						switch err.(type) {
						case interp.ParamExpError, interp.ArithExprError:
						default:
							if resp.ErrTyp == "" {
								resp.Err, resp.ErrTyp = err.Error(), errType(err)
							}
						}
					}
				}
			}
		}
	}
	return n
}

var rawStyles = []printer.Style{0, printer.Tab, printer.Space, printer.Newline, printer.Before, printer.After, printer.Before | printer.After, printer.Tab | printer.Space, 31, 1 << 5, printer.Before | printer.Space, printer.After | printer.Newline | printer.Space}

// rawConfig is the i-th of the configurations whose style fields are arbitrary bit sets.
func rawConfig(i int) printer.Config {
	n := len(rawStyles)
	pick := func() printer.Style {
		s := rawStyles[i%n]
		i /= n
		return s
	}
	var c printer.Config
	c.Redir, c.Assign, c.Indent, c.Do, c.Then = pick(), pick(), pick(), pick(), pick()
	c.Case = i%2 == 1
	c.Width = []int{0, 2, 4}[i/2%3]
	return c
}

func config(i int) printer.Config {
	var c printer.Config
	bit := func(k int) bool { return i>>k&1 == 1 }
	c.Indent = printer.Tab
	if bit(0) {
		c.Indent = printer.Space
	}
	if bit(1) {
		// bits 8 and up select another width
		c.Width = []int{2, 1, 4, 8, 16, 33, -1}[((i>>8)&7)%7]
	}
	c.Redir = printer.After
	if bit(2) {
		c.Redir = printer.Before
	}
	if bit(3) {
		c.Redir |= printer.Space
	}
	c.Assign = printer.Before
	if bit(4) {
		c.Assign = printer.After
	}
	if bit(5) {
		c.Do = printer.Newline
	}
	c.Case = bit(6)
	if bit(7) {
		c.Then = printer.Newline
	}
	// bits 11-13: leave the fields whose documented default was chosen at
	// their zero value instead of naming the default
	if bit(11) && c.Indent == printer.Tab {
		c.Indent = 0
	}
	if bit(12) {
		c.Redir &^= printer.After
	}
	if bit(13) && c.Assign == printer.Before {
		c.Assign = 0
	}
	return c
}

func main() {
	in := bufio.NewReaderSize(os.Stdin, 1<<20)
	out := bufio.NewWriter(os.Stdout)
	for {
		line, err := in.ReadBytes('\n')
		if len(line) > 0 {
			var r wproto.Req
			var resp wproto.Resp
			if e := json.Unmarshal(line, &r); e != nil {
				resp = wproto.Resp{Note: "bad request: " + e.Error()}
			} else {
				resp = handle(r)
			}
			b, _ := json.Marshal(resp)
			out.Write(b)
			out.WriteByte('\n')
			out.Flush()
		}
		if err != nil {
			return
		}
	}
}
