// Package skel defines the position-free textual normal form ("skeleton") in
// which generated programs and go.sh's trees are compared. The generator
// (package gen) writes the skeleton it expects next to the source text it
// emits; package oracle derives the skeleton of a tree go.sh returned.
package skel

import (
	"strconv"
	"strings"
)

func q(s string) string { return strconv.Quote(s) }

// ---- words ------------------------------------------------------------------

func Lit(s string) string { return "L" + q(s) }

// Quote: tok is ', " or \.
func Quote(tok string, parts []string) string {
	return "Q" + tok + "[" + strings.Join(parts, " ") + "]"
}

// Param: word is "nil" for a nil ast.Word, otherwise Word(...).
func Param(braces bool, name, op, word string) string {
	b := "0"
	if braces {
		b = "1"
	}
	return "P(b=" + b + " n=" + q(name) + " op=" + q(op) + " w=" + word + ")"
}

func CmdSubst(dollar bool, cmds []string) string {
	d := "`"
	if dollar {
		d = "$"
	}
	return "C" + d + "(" + strings.Join(cmds, " ; ") + ")"
}

func Arith(parts []string) string { return "A[" + strings.Join(parts, " ") + "]" }

func Word(parts []string) string { return "W[" + strings.Join(parts, " ") + "]" }

const Nil = "nil"

// ---- commands ---------------------------------------------------------------

// Redir: n is the io-number text or "". heredoc/delim are Nil when absent.
func Redir(n, op, word, heredoc, delim string) string {
	s := "R(" + q(n) + " " + op + " " + word
	if heredoc != Nil || delim != Nil {
		s += " body=" + heredoc + " delim=" + delim
	}
	return s + ")"
}

func Assign(name, value string) string { return "=(" + q(name) + " " + value + ")" }

func Simple(assigns, args []string) string {
	return "Simple(assigns[" + strings.Join(assigns, " ") + "] args[" + strings.Join(args, " ") + "])"
}

func Cmd(expr string, redirs []string) string {
	return "Cmd(" + expr + " redirs[" + strings.Join(redirs, " ") + "])"
}

// Pipeline: rest are the commands after the first, each preceded by "|".
func Pipeline(bang bool, first string, rest []string) string {
	s := "Pipeline("
	if bang {
		s += "! "
	}
	s += first
	for _, c := range rest {
		s += " | " + c
	}
	return s + ")"
}

type AO struct {
	Op   string // "&&" or "||"
	Pipe string
}

func AndOr(first string, rest []AO, sep string) string {
	s := "AndOr(" + first
	for _, r := range rest {
		s += " " + r.Op + " " + r.Pipe
	}
	return s + " sep=" + q(sep) + ")"
}

func List(andors []string) string { return "List(" + strings.Join(andors, " , ") + ")" }

func Cmds(cmds []string) string { return "{" + strings.Join(cmds, " ; ") + "}" }

func Subshell(list []string) string { return "Subshell" + Cmds(list) }
func Group(list []string) string    { return "Group" + Cmds(list) }
func ArithEval(parts []string) string {
	return "ArithEval[" + strings.Join(parts, " ") + "]"
}

func b(v bool) string {
	if v {
		return "1"
	}
	return "0"
}

func For(name string, in bool, items []string, semi bool, list []string) string {
	return "For(" + q(name) + " in=" + b(in) + " items[" + strings.Join(items, " ") + "] semi=" + b(semi) + " " + Cmds(list) + ")"
}

// CaseItem: list is nil when the item has no commands.
func CaseItem(lparen bool, patterns []string, list []string, brk bool) string {
	l := Nil
	if list != nil {
		l = Cmds(list)
	}
	return "Item(lp=" + b(lparen) + " pats[" + strings.Join(patterns, " ") + "] " + l + " brk=" + b(brk) + ")"
}

func Case(word string, items []string) string {
	return "Case(" + word + " items[" + strings.Join(items, " ") + "])"
}

func Elif(cond, list []string) string { return "Elif(" + Cmds(cond) + " " + Cmds(list) + ")" }
func Else(list []string) string       { return "Else(" + Cmds(list) + ")" }

func If(cond, list []string, elses []string) string {
	return "If(" + Cmds(cond) + " " + Cmds(list) + " else[" + strings.Join(elses, " ") + "])"
}

func While(until bool, cond, list []string) string {
	k := "While"
	if until {
		k = "Until"
	}
	return k + "(" + Cmds(cond) + " " + Cmds(list) + ")"
}

func FuncDef(name, body string) string { return "FuncDef(" + q(name) + " " + body + ")" }

// Comment of the comment list.
func Comment(text string) string { return "#" + q(text) }
