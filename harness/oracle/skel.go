// Package oracle derives comparable facts from the trees go.sh returns:
// skeletons (position-free normal forms), position checks, deep snapshots.
package oracle

import (
	"fmt"
	"strings"

	"github.com/hattya/go.sh/ast"

	"verif/skel"
)

// Mode selects the normal form.
type Mode int

const (
	// Exact keeps go.sh's documented node shapes: which concrete type a
	// command has, Sep values, Braces, Dollar, nil vs empty where the
	// documentation distinguishes them.
	Exact Mode = iota
	// Sep additionally flattens command sequences so that ";" and newline are
	// the same separator and a trailing ";" is dropped, and forgets the
	// optional "(" / ";;" of case items and the ";" of for clauses. Used where
	// the transformation under test may legitimately exchange them.
	Sep
)

// Commands returns the skeletons of a command sequence.
func Commands(cmds []ast.Command, m Mode) []string {
	var out []string
	for _, c := range cmds {
		if m == Sep {
			out = append(out, flat(c)...)
		} else {
			out = append(out, Command(c, m))
		}
	}
	return out
}

// Command returns the skeleton of one command in Exact mode; in Sep mode use
// Commands (one command may flatten into several units).
func Command(c ast.Command, m Mode) string {
	if m == Sep {
		return skel.Cmds(flat(c))
	}
	switch c := c.(type) {
	case ast.List:
		var l []string
		for _, ao := range c {
			l = append(l, andOr(ao, m))
		}
		return skel.List(l)
	case *ast.AndOrList:
		return andOr(c, m)
	case *ast.Pipeline:
		return pipeline(c, m)
	case *ast.Cmd:
		return cmd(c, m)
	case nil:
		return "<nil command>"
	}
	return fmt.Sprintf("<unknown command %T>", c)
}

// flat returns the and-or units of c with normalised separators.
func flat(c ast.Command) []string {
	unit := func(ao *ast.AndOrList) string {
		var rest []skel.AO
		for _, r := range ao.List {
			rest = append(rest, skel.AO{Op: r.Op, Pipe: pipeline(r.Pipeline, Sep)})
		}
		sep := ""
		if ao.Sep == "&" {
			sep = "&"
		}
		return skel.AndOr(pipeline(ao.Pipeline, Sep), rest, sep)
	}
	switch c := c.(type) {
	case ast.List:
		var out []string
		for _, ao := range c {
			out = append(out, unit(ao))
		}
		return out
	case *ast.AndOrList:
		return []string{unit(c)}
	case *ast.Pipeline:
		return []string{skel.AndOr(pipeline(c, Sep), nil, "")}
	case *ast.Cmd:
		return []string{skel.AndOr(skel.Pipeline(false, cmd(c, Sep), nil), nil, "")}
	}
	return []string{fmt.Sprintf("<unknown command %T>", c)}
}

func andOr(ao *ast.AndOrList, m Mode) string {
	if ao == nil {
		return "<nil AndOrList>"
	}
	var rest []skel.AO
	for _, r := range ao.List {
		rest = append(rest, skel.AO{Op: r.Op, Pipe: pipeline(r.Pipeline, m)})
	}
	return skel.AndOr(pipeline(ao.Pipeline, m), rest, ao.Sep)
}

func pipeline(p *ast.Pipeline, m Mode) string {
	if p == nil {
		return "<nil Pipeline>"
	}
	var rest []string
	for _, r := range p.List {
		if r.Op != "|" {
			rest = append(rest, "<op "+r.Op+">")
		}
		rest = append(rest, cmd(r.Cmd, m))
	}
	return skel.Pipeline(!p.Bang.IsZero(), cmd(p.Cmd, m), rest)
}

func cmd(c *ast.Cmd, m Mode) string {
	if c == nil {
		return "<nil Cmd>"
	}
	var redirs []string
	for _, r := range c.Redirs {
		redirs = append(redirs, Redir(r, m))
	}
	return skel.Cmd(expr(c.Expr, m), redirs)
}

// Redir returns the skeleton of a redirection.
func Redir(r *ast.Redir, m Mode) string {
	n := ""
	if r.N != nil {
		n = r.N.Value
	}
	hd, dl := skel.Nil, skel.Nil
	if r.Heredoc != nil {
		hd = skel.Word(merged(r.Heredoc, m))
	}
	if r.Delim != nil {
		// the delimiter line is compared as text: whether "$x" in it is kept
		// as scanned or as a literal is not the property's business
		if t, ok := delimText(r.Delim); ok {
			dl = skel.Word([]string{skel.Lit(t)})
		} else {
			dl = skel.Word(merged(r.Delim, m))
		}
	}
	return skel.Redir(n, r.Op, Word(r.Word, m), hd, dl)
}

// delimText spells a delimiter line back as text; ok is false for shapes the
// generator never puts into a delimiter.
func delimText(w ast.Word) (string, bool) {
	var b strings.Builder
	for _, p := range w {
		switch p := p.(type) {
		case *ast.Lit:
			b.WriteString(p.Value)
		case *ast.Quote:
			if p.Tok != `\\` {
				return "", false
			}
			t, ok := delimText(p.Value)
			if !ok {
				return "", false
			}
			b.WriteString(`\\` + t)
		case *ast.ParamExp:
			if p.Name == nil || p.Op != "" || p.Word != nil {
				return "", false
			}
			if p.Braces {
				b.WriteString("${" + p.Name.Value + "}")
			} else {
				b.WriteString("$" + p.Name.Value)
			}
		case *ast.CmdSubst:
			if p.Dollar || len(p.List) != 1 {
				return "", false
			}
			c, ok := p.List[0].(*ast.Cmd)
			if !ok || len(c.Redirs) != 0 {
				return "", false
			}
			sc, ok := c.Expr.(*ast.SimpleCmd)
			if !ok || len(sc.Assigns) != 0 || len(sc.Args) != 1 {
				return "", false
			}
			t, ok := delimText(sc.Args[0])
			if !ok {
				return "", false
			}
			b.WriteString("`" + t + "`")
		default:
			return "", false
		}
	}
	return b.String(), true
}

func expr(x ast.CmdExpr, m Mode) string {
	switch x := x.(type) {
	case *ast.SimpleCmd:
		var as, args []string
		for _, a := range x.Assigns {
			name := "<nil>"
			if a.Name != nil {
				name = a.Name.Value
			}
			if a.Op != "=" {
				name += "<op " + a.Op + ">"
			}
			as = append(as, skel.Assign(name, Word(a.Value, m)))
		}
		for _, w := range x.Args {
			args = append(args, Word(w, m))
		}
		return skel.Simple(as, args)
	case *ast.Subshell:
		return skel.Subshell(Commands(x.List, m))
	case *ast.Group:
		return skel.Group(Commands(x.List, m))
	case *ast.ArithEval:
		return skel.ArithEval(parts(x.Expr, m))
	case *ast.ForClause:
		var items []string
		for _, w := range x.Items {
			items = append(items, Word(w, m))
		}
		name := "<nil>"
		if x.Name != nil {
			name = x.Name.Value
		}
		semi := !x.Semicolon.IsZero()
		if m == Sep {
			semi = false
		}
		return skel.For(name, !x.In.IsZero(), items, semi, Commands(x.List, m))
	case *ast.CaseClause:
		var items []string
		for _, ci := range x.Items {
			var pats []string
			for _, w := range ci.Patterns {
				pats = append(pats, Word(w, m))
			}
			var list []string
			if ci.List != nil {
				list = Commands(ci.List, m)
				if list == nil {
					list = []string{}
				}
			}
			lp, brk := !ci.Lparen.IsZero(), !ci.Break.IsZero()
			if m == Sep {
				lp, brk = false, false
			}
			items = append(items, skel.CaseItem(lp, pats, list, brk))
		}
		return skel.Case(Word(x.Word, m), items)
	case *ast.IfClause:
		var elses []string
		for _, e := range x.Else {
			switch e := e.(type) {
			case *ast.ElifClause:
				elses = append(elses, skel.Elif(Commands(e.Cond, m), Commands(e.List, m)))
			case *ast.ElseClause:
				elses = append(elses, skel.Else(Commands(e.List, m)))
			default:
				elses = append(elses, fmt.Sprintf("<unknown else part %T>", e))
			}
		}
		return skel.If(Commands(x.Cond, m), Commands(x.List, m), elses)
	case *ast.WhileClause:
		return skel.While(false, Commands(x.Cond, m), Commands(x.List, m))
	case *ast.UntilClause:
		return skel.While(true, Commands(x.Cond, m), Commands(x.List, m))
	case *ast.FuncDef:
		name := "<nil>"
		if x.Name != nil {
			name = x.Name.Value
		}
		body := "<nil body>"
		if x.Body != nil {
			if m == Sep {
				if c, ok := x.Body.(*ast.Cmd); ok {
					body = cmd(c, m)
				} else {
					body = Command(x.Body, m)
				}
			} else {
				body = Command(x.Body, m)
			}
		}
		return skel.FuncDef(name, body)
	case nil:
		return "<nil expr>"
	}
	return fmt.Sprintf("<unknown expr %T>", x)
}

// Word returns the skeleton of a word.
func Word(w ast.Word, m Mode) string { return skel.Word(parts(w, m)) }

func parts(w ast.Word, m Mode) []string {
	var out []string
	for _, p := range w {
		out = append(out, part(p, m))
	}
	return out
}

// merged is parts with adjacent literals concatenated (here-document bodies:
// how the lexer splits literal text there is not documented).
func merged(w ast.Word, m Mode) []string {
	var out []string
	lit, have := "", false
	flush := func() {
		if have {
			out = append(out, skel.Lit(lit))
			lit, have = "", false
		}
	}
	for _, p := range w {
		if l, ok := p.(*ast.Lit); ok {
			lit += l.Value
			have = true
			continue
		}
		flush()
		out = append(out, part(p, m))
	}
	flush()
	return out
}

func part(p ast.WordPart, m Mode) string {
	switch p := p.(type) {
	case *ast.Lit:
		return skel.Lit(p.Value)
	case *ast.Quote:
		return skel.Quote(p.Tok, parts(p.Value, m))
	case *ast.ParamExp:
		name := "<nil>"
		if p.Name != nil {
			name = p.Name.Value
		}
		w := skel.Nil
		if p.Word != nil {
			w = Word(p.Word, m)
		}
		return skel.Param(p.Braces, name, p.Op, w)
	case *ast.CmdSubst:
		return skel.CmdSubst(p.Dollar, Commands(p.List, m))
	case *ast.ArithExp:
		return skel.Arith(parts(p.Expr, m))
	case nil:
		return "<nil part>"
	}
	return fmt.Sprintf("<unknown part %T>", p)
}

// Comments returns the skeleton of a comment list.
func Comments(cs []*ast.Comment) []string {
	var out []string
	for _, c := range cs {
		out = append(out, skel.Comment(c.Text))
	}
	return out
}
