package oracle

import (
	"fmt"
	"strings"

	"github.com/hattya/go.sh/ast"
)

// Position checker (property C04). The check is intrinsic to (source, tree):
// for every position field the text at that line:column has to spell what the
// field documents; Pos()/End() of every node lie inside the source, Pos() is
// not after End(), a node that owns characters has a non-zero End(), children
// lie inside their parents and siblings are in increasing order. Columns
// count characters.

type source struct {
	lines [][]rune
}

func newSource(s string) *source {
	x := &source{}
	for _, l := range strings.Split(s, "\n") {
		x.lines = append(x.lines, []rune(l))
	}
	return x
}

// at returns the text from p to the end of the source.
func (s *source) at(p ast.Pos, max int) (string, bool) {
	if p.Line() < 1 || p.Line() > len(s.lines) {
		return "", false
	}
	l := s.lines[p.Line()-1]
	if p.Col() < 1 || p.Col() > len(l)+1 {
		return "", false
	}
	var b strings.Builder
	b.WriteString(string(l[p.Col()-1:]))
	for i := p.Line(); i < len(s.lines) && b.Len() < max; i++ {
		b.WriteByte('\n')
		b.WriteString(string(s.lines[i]))
	}
	return b.String(), true
}

func (s *source) inside(p ast.Pos) bool {
	_, ok := s.at(p, 0)
	return ok
}

// PosResult is the outcome of a position check.
type PosResult struct {
	Errs   []string
	Fields int // position fields whose text was compared
}

type pchecker struct {
	s    *source
	errs []string
	n    int
}

func (c *pchecker) errf(f string, a ...interface{}) {
	if len(c.errs) < 20 {
		c.errs = append(c.errs, fmt.Sprintf(f, a...))
	}
}

func (c *pchecker) spell(what string, p ast.Pos, text string) {
	c.n++
	if p.IsZero() {
		c.errf("%s: zero position (want %q)", what, clip(text))
		return
	}
	got, ok := c.s.at(p, len(text)+8)
	if !ok {
		c.errf("%s: position %d:%d is outside the source", what, p.Line(), p.Col())
		return
	}
	if !strings.HasPrefix(got, text) {
		c.errf("%s: at %d:%d the source has %q, the field stands for %q", what, p.Line(), p.Col(), clip(got), clip(text))
	}
}

func clip(s string) string {
	r := []rune(s)
	if len(r) > 16 {
		return string(r[:16]) + "..."
	}
	return s
}

func (c *pchecker) optSpell(what string, p ast.Pos, text string) {
	if !p.IsZero() {
		c.spell(what, p, text)
	}
}

func ps(p ast.Pos) string { return fmt.Sprintf("%d:%d", p.Line(), p.Col()) }

// node checks the extent of a node that owns at least one character.
func (c *pchecker) node(what string, n ast.Node) (ast.Pos, ast.Pos) {
	p, e := n.Pos(), n.End()
	if p.IsZero() {
		c.errf("%s: Pos() is zero", what)
	} else if !c.s.inside(p) {
		c.errf("%s: Pos() %s is outside the source", what, ps(p))
	}
	if e.IsZero() {
		c.errf("%s: End() is zero for a node that owns text", what)
	} else if !c.s.inside(e) {
		c.errf("%s: End() %s is outside the source", what, ps(e))
	}
	if !p.IsZero() && !e.IsZero() && p.After(e) {
		c.errf("%s: Pos() %s is after End() %s", what, ps(p), ps(e))
	}
	return p, e
}

// within checks that a child's extent lies inside its parent's. hd: the
// child contains a here-document redirection, whose End() (pinned by the
// repository's own tests to the end of the delimiter line) lies after later
// tokens of the command line; only the start is compared then.
func (c *pchecker) within(what string, cp, ce, pp, pe ast.Pos, hd bool) {
	if cp.IsZero() || ce.IsZero() || pp.IsZero() || pe.IsZero() {
		return
	}
	if cp.Before(pp) || !hd && ce.After(pe) {
		c.errf("%s: extent [%s,%s] is outside its parent's [%s,%s]", what, ps(cp), ps(ce), ps(pp), ps(pe))
	}
}

func (c *pchecker) cmds(what string, list []ast.Command, pp, pe ast.Pos) {
	var prev ast.Pos
	for i, cm := range list {
		w := fmt.Sprintf("%s[%d]", what, i)
		p, e := c.command(w, cm)
		c.within(w, p, e, pp, pe, hasHeredoc(cm))
		if i > 0 && !prev.IsZero() && !p.IsZero() && !prev.Before(p) {
			c.errf("%s: starts at %s, not after its predecessor at %s", w, ps(p), ps(prev))
		}
		prev = p
	}
}

func (c *pchecker) command(what string, cm ast.Command) (ast.Pos, ast.Pos) {
	p, e := c.node(what, cm)
	hd := hasHeredoc(cm)
	switch x := cm.(type) {
	case ast.List:
		var prev ast.Pos
		for i, ao := range x {
			w := fmt.Sprintf("%s.List[%d]", what, i)
			cp, ce := c.command(w, ao)
			// (a list, an and-or list and a pipeline end where their last
			// element ends, here-document or not; an earlier element with a
			// here-document may end later than that)
			c.within(w, cp, ce, p, e, hd && i < len(x)-1)
			if i > 0 && !prev.Before(cp) {
				c.errf("%s: starts at %s, not after its predecessor at %s", w, ps(cp), ps(prev))
			}
			prev = cp
		}
	case *ast.AndOrList:
		cp, ce := c.command(what+".Pipeline", x.Pipeline)
		c.within(what+".Pipeline", cp, ce, p, e, hd && len(x.List) > 0)
		prev := cp
		for i, ao := range x.List {
			w := fmt.Sprintf("%s.AndOr[%d]", what, i)
			c.spell(w+".OpPos", ao.OpPos, ao.Op)
			ap, ae := c.node(w, ao)
			c.within(w, ap, ae, p, e, hd && i < len(x.List)-1)
			if !prev.Before(ap) {
				c.errf("%s: starts at %s, not after its predecessor at %s", w, ps(ap), ps(prev))
			}
			prev = ap
			qp, qe := c.command(w+".Pipeline", ao.Pipeline)
			c.within(w+".Pipeline", qp, qe, ap, ae, hd)
		}
		if x.Sep != "" || !x.SepPos.IsZero() {
			c.spell(what+".SepPos", x.SepPos, x.Sep)
			if x.Sep != ";" && x.Sep != "&" {
				c.errf("%s.Sep: %q is neither \";\" nor \"&\"", what, x.Sep)
			}
		}
	case *ast.Pipeline:
		c.optSpell(what+".Bang", x.Bang, "!")
		cp, ce := c.command(what+".Cmd", x.Cmd)
		c.within(what+".Cmd", cp, ce, p, e, hd && len(x.List) > 0)
		prev := cp
		for i, pi := range x.List {
			w := fmt.Sprintf("%s.Pipe[%d]", what, i)
			c.spell(w+".OpPos", pi.OpPos, pi.Op)
			ap, ae := c.node(w, pi)
			c.within(w, ap, ae, p, e, hd && i < len(x.List)-1)
			if !prev.Before(ap) {
				c.errf("%s: starts at %s, not after its predecessor at %s", w, ps(ap), ps(prev))
			}
			prev = ap
			qp, qe := c.command(w+".Cmd", pi.Cmd)
			c.within(w+".Cmd", qp, qe, ap, ae, hd)
		}
	case *ast.Cmd:
		if sc, ok := x.Expr.(*ast.SimpleCmd); !ok || len(sc.Assigns)+len(sc.Args) > 0 {
			xp, xe := c.node(what+".Expr", x.Expr)
			c.within(what+".Expr", xp, xe, p, e, false)
		}
		c.expr(what, x.Expr)
		for i, r := range x.Redirs {
			w := fmt.Sprintf("%s.Redir[%d]", what, i)
			rp, re := c.redir(w, r)
			// a command holds all its redirections, here-documents included,
			// wherever on the command line they stand
			c.within(w, rp, re, p, e, false)
			if i > 0 && !x.Redirs[i-1].Pos().Before(rp) {
				c.errf("%s: starts at %s, not after the previous redirection at %s", w, ps(rp), ps(x.Redirs[i-1].Pos()))
			}
		}
	}
	return p, e
}

func (c *pchecker) redir(what string, r *ast.Redir) (ast.Pos, ast.Pos) {
	p, e := c.node(what, r)
	if r.N != nil {
		c.spell(what+".N", r.N.ValuePos, r.N.Value)
		// the operator follows the io-number directly
		if want := r.N.End(); r.OpPos != want {
			// only line continuations may stand in between
			between, ok := c.s.at(want, 1<<20)
			for ok && strings.HasPrefix(between, "\\\n") {
				between = between[2:]
				want = ast.NewPos(want.Line()+1, 1)
			}
			if r.OpPos != want {
				c.errf("%s.OpPos: %s, want %s (directly after the io-number)", what, ps(r.OpPos), ps(want))
			}
		}
	}
	c.spell(what+".OpPos", r.OpPos, r.Op)
	c.word(what+".Word", r.Word)
	if !r.OpPos.Before(r.Word.Pos()) {
		c.errf("%s.Word: starts at %s, not after the operator at %s", what, ps(r.Word.Pos()), ps(r.OpPos))
	}
	switch r.Op {
	case "<<", "<<-":
		if r.Heredoc == nil || r.Delim == nil {
			c.errf("%s: here-document without body/delimiter", what)
			break
		}
		c.word(what+".Heredoc", r.Heredoc)
		c.word(what+".Delim", r.Delim)
		// body and delimiter lie after the command line, in this order
		if len(r.Heredoc) > 0 {
			if hp := r.Heredoc.Pos(); hp.Line() <= r.Word.End().Line() || hp.Col() != 1 {
				c.errf("%s.Heredoc: starts at %s, want the beginning of a line after the operator's line %d", what, ps(hp), r.OpPos.Line())
			}
			if !r.Heredoc.Pos().Before(r.Delim.Pos()) {
				c.errf("%s.Delim: at %s, not after the body at %s", what, ps(r.Delim.Pos()), ps(r.Heredoc.Pos()))
			}
		}
		if dp := r.Delim.Pos(); dp.Line() <= r.Word.End().Line() || dp.Col() != 1 {
			c.errf("%s.Delim: starts at %s, want the beginning of a line after the operator's line %d", what, ps(dp), r.OpPos.Line())
		}
		// body and delimiter line are children of the redirection, for << and <<- alike
		if de := r.Delim.End(); e.Before(de) {
			c.errf("%s: ends at %s, before its own delimiter line ends at %s", what, ps(e), ps(de))
		}
	}
	return p, e
}

func (c *pchecker) expr(what string, x ast.CmdExpr) {
	switch x := x.(type) {
	case *ast.SimpleCmd:
		var prev ast.Pos
		for i, a := range x.Assigns {
			w := fmt.Sprintf("%s.Assign[%d]", what, i)
			ap, _ := c.node(w, a)
			if a.Name == nil {
				c.errf("%s: nil Name", w)
				continue
			}
			c.spell(w+".Name", a.Name.ValuePos, a.Name.Value+a.Op)
			c.word(w+".Value", a.Value)
			if len(a.Value) > 0 {
				want := a.Name.End()
				want = ast.NewPos(want.Line(), want.Col()+len(a.Op))
				if a.Value.Pos() != want {
					c.errf("%s.Value: starts at %s, want %s (directly after the operator)", w, ps(a.Value.Pos()), ps(want))
				}
			}
			if i > 0 && !prev.Before(ap) {
				c.errf("%s: starts at %s, not after its predecessor at %s", w, ps(ap), ps(prev))
			}
			prev = ap
		}
		prev = ast.Pos{}
		for i, a := range x.Args {
			w := fmt.Sprintf("%s.Arg[%d]", what, i)
			c.word(w, a)
			if i > 0 && !prev.Before(a.Pos()) {
				c.errf("%s: starts at %s, not after its predecessor at %s", w, ps(a.Pos()), ps(prev))
			}
			prev = a.Pos()
		}
	case *ast.Subshell:
		c.spell(what+".Lparen", x.Lparen, "(")
		c.spell(what+".Rparen", x.Rparen, ")")
		c.cmds(what+".List", x.List, x.Lparen, x.Rparen)
	case *ast.Group:
		c.spell(what+".Lbrace", x.Lbrace, "{")
		c.spell(what+".Rbrace", x.Rbrace, "}")
		c.cmds(what+".List", x.List, x.Lbrace, x.Rbrace)
	case *ast.ArithEval:
		c.spell(what+".Left", x.Left, "((")
		c.spell(what+".Right", x.Right, "))")
		c.word(what+".Expr", x.Expr)
		if len(x.Expr) > 0 {
			c.within(what+".Expr", x.Expr.Pos(), x.Expr.End(), x.Left, x.Right, false)
		}
	case *ast.ForClause:
		c.spell(what+".For", x.For, "for")
		if x.Name == nil {
			c.errf("%s: nil Name", what)
		} else {
			c.spell(what+".Name", x.Name.ValuePos, x.Name.Value)
		}
		c.optSpell(what+".In", x.In, "in")
		prev := x.In
		for i, w := range x.Items {
			iw := fmt.Sprintf("%s.Item[%d]", what, i)
			c.word(iw, w)
			if !prev.Before(w.Pos()) {
				c.errf("%s: starts at %s, not after %s", iw, ps(w.Pos()), ps(prev))
			}
			prev = w.Pos()
		}
		c.optSpell(what+".Semicolon", x.Semicolon, ";")
		c.spell(what+".Do", x.Do, "do")
		c.spell(what+".Done", x.Done, "done")
		c.cmds(what+".List", x.List, x.Do, x.Done)
		c.order(what, x.For, x.Do, x.Done)
	case *ast.CaseClause:
		c.spell(what+".Case", x.Case, "case")
		c.word(what+".Word", x.Word)
		c.spell(what+".In", x.In, "in")
		c.spell(what+".Esac", x.Esac, "esac")
		c.order(what, x.Case, x.In, x.Esac)
		var prev ast.Pos
		for i, it := range x.Items {
			w := fmt.Sprintf("%s.Item[%d]", what, i)
			ip, ie := c.node(w, it)
			c.within(w, ip, ie, x.In, x.Esac, hasHeredocCmds(it.List))
			if i > 0 && !prev.Before(ip) {
				c.errf("%s: starts at %s, not after its predecessor at %s", w, ps(ip), ps(prev))
			}
			prev = ip
			c.optSpell(w+".Lparen", it.Lparen, "(")
			for j, p := range it.Patterns {
				c.word(fmt.Sprintf("%s.Pattern[%d]", w, j), p)
			}
			c.spell(w+".Rparen", it.Rparen, ")")
			c.optSpell(w+".Break", it.Break, ";;")
			c.cmds(w+".List", it.List, it.Rparen, x.Esac)
		}
	case *ast.IfClause:
		c.spell(what+".If", x.If, "if")
		c.spell(what+".Then", x.Then, "then")
		c.spell(what+".Fi", x.Fi, "fi")
		c.order(what, x.If, x.Then, x.Fi)
		c.cmds(what+".Cond", x.Cond, x.If, x.Then)
		c.cmds(what+".List", x.List, x.Then, x.Fi)
		prev := x.Then
		for i, ep := range x.Else {
			w := fmt.Sprintf("%s.Else[%d]", what, i)
			pp, pe := c.node(w, ep)
			if !prev.Before(pp) {
				c.errf("%s: starts at %s, not after %s", w, ps(pp), ps(prev))
			}
			prev = pp
			switch ep := ep.(type) {
			case *ast.ElifClause:
				c.within(w, pp, pe, x.Then, x.Fi, hasHeredocCmds(ep.List))
				c.spell(w+".Elif", ep.Elif, "elif")
				c.spell(w+".Then", ep.Then, "then")
				c.cmds(w+".Cond", ep.Cond, ep.Elif, ep.Then)
				c.cmds(w+".List", ep.List, ep.Then, x.Fi)
			case *ast.ElseClause:
				c.within(w, pp, pe, x.Then, x.Fi, hasHeredocCmds(ep.List))
				c.spell(w+".Else", ep.Else, "else")
				c.cmds(w+".List", ep.List, ep.Else, x.Fi)
			}
		}
	case *ast.WhileClause:
		c.spell(what+".While", x.While, "while")
		c.spell(what+".Do", x.Do, "do")
		c.spell(what+".Done", x.Done, "done")
		c.order(what, x.While, x.Do, x.Done)
		c.cmds(what+".Cond", x.Cond, x.While, x.Do)
		c.cmds(what+".List", x.List, x.Do, x.Done)
	case *ast.UntilClause:
		c.spell(what+".Until", x.Until, "until")
		c.spell(what+".Do", x.Do, "do")
		c.spell(what+".Done", x.Done, "done")
		c.order(what, x.Until, x.Do, x.Done)
		c.cmds(what+".Cond", x.Cond, x.Until, x.Do)
		c.cmds(what+".List", x.List, x.Do, x.Done)
	case *ast.FuncDef:
		if x.Name == nil {
			c.errf("%s: nil Name", what)
		} else {
			c.spell(what+".Name", x.Name.ValuePos, x.Name.Value)
		}
		c.spell(what+".Lparen", x.Lparen, "(")
		c.spell(what+".Rparen", x.Rparen, ")")
		if x.Body != nil {
			bp, _ := c.command(what+".Body", x.Body)
			c.order(what, x.Lparen, x.Rparen, bp)
		}
	}
}

func (c *pchecker) order(what string, ps3 ...ast.Pos) {
	for i := 1; i < len(ps3); i++ {
		if !ps3[i-1].IsZero() && !ps3[i].IsZero() && !ps3[i-1].Before(ps3[i]) {
			c.errf("%s: position %s is not before %s", what, ps(ps3[i-1]), ps(ps3[i]))
		}
	}
}

func (c *pchecker) word(what string, w ast.Word) {
	if len(w) == 0 {
		return
	}
	wp, we := c.node(what, w)
	var prevEnd ast.Pos
	for i, p := range w {
		pw := fmt.Sprintf("%s[%d]", what, i)
		if l, ok := p.(*ast.Lit); ok && l.Value == "" {
			continue
		}
		pp, pe := c.node(pw, p)
		c.within(pw, pp, pe, wp, we, false)
		if i > 0 && !prevEnd.IsZero() && !pp.IsZero() && pp.Before(prevEnd) {
			c.errf("%s: starts at %s, before the previous part ends at %s", pw, ps(pp), ps(prevEnd))
		}
		prevEnd = pe
		switch x := p.(type) {
		case *ast.Lit:
			c.spell(pw, x.ValuePos, x.Value)
		case *ast.Quote:
			c.spell(pw+".TokPos", x.TokPos, x.Tok)
			c.word(pw+".Value", x.Value)
			if x.Tok != `\` && !pe.IsZero() && pe.Col() > 1 {
				c.spell(pw+" closing quote", ast.NewPos(pe.Line(), pe.Col()-1), x.Tok)
			}
			if len(x.Value) > 0 {
				c.within(pw+".Value", x.Value.Pos(), x.Value.End(), pp, pe, false)
			}
		case *ast.ParamExp:
			if x.Braces {
				c.spell(pw+".Dollar", x.Dollar, "${")
			} else {
				c.spell(pw+".Dollar", x.Dollar, "$")
			}
			if x.Name == nil {
				c.errf("%s: nil Name", pw)
				break
			}
			c.spell(pw+".Name", x.Name.ValuePos, x.Name.Value)
			if x.Op != "" {
				c.spell(pw+".OpPos", x.OpPos, x.Op)
			}
			c.word(pw+".Word", x.Word)
			if len(x.Word) > 0 {
				c.within(pw+".Word", x.Word.Pos(), x.Word.End(), pp, pe, false)
			}
			if x.Braces && !pe.IsZero() && pe.Col() > 1 {
				c.spell(pw+" closing brace", ast.NewPos(pe.Line(), pe.Col()-1), "}")
			}
		case *ast.CmdSubst:
			if x.Dollar {
				c.spell(pw+".Left", x.Left, "(")
				c.spell(pw+".Pos()", pp, "$(")
				c.spell(pw+".Right", x.Right, ")")
			} else {
				c.spell(pw+".Left", x.Left, "`")
				c.spell(pw+".Right", x.Right, "`")
			}
			c.cmds(pw+".List", x.List, x.Left, x.Right)
		case *ast.ArithExp:
			c.spell(pw+".Left", x.Left, "$((")
			c.spell(pw+".Right", x.Right, "))")
			c.word(pw+".Expr", x.Expr)
			if len(x.Expr) > 0 {
				c.within(pw+".Expr", x.Expr.Pos(), x.Expr.End(), x.Left, x.Right, false)
			}
		}
	}
}

func hasHeredocCmds(cmds []ast.Command) bool {
	for _, c := range cmds {
		if hasHeredoc(c) {
			return true
		}
	}
	return false
}

// hasHeredoc reports whether the command's own command line (not nested
// substitutions) carries a here-document redirection.
func hasHeredoc(cm ast.Command) bool {
	switch x := cm.(type) {
	case ast.List:
		for _, ao := range x {
			if hasHeredoc(ao) {
				return true
			}
		}
	case *ast.AndOrList:
		if x.Pipeline != nil && hasHeredoc(x.Pipeline) {
			return true
		}
		for _, ao := range x.List {
			if ao.Pipeline != nil && hasHeredoc(ao.Pipeline) {
				return true
			}
		}
	case *ast.Pipeline:
		if x.Cmd != nil && hasHeredoc(x.Cmd) {
			return true
		}
		for _, p := range x.List {
			if p.Cmd != nil && hasHeredoc(p.Cmd) {
				return true
			}
		}
	case *ast.Cmd:
		for _, r := range x.Redirs {
			if r.Op == "<<" || r.Op == "<<-" {
				return true
			}
		}
		switch e := x.Expr.(type) {
		case *ast.Subshell:
			return hasHeredocCmds(e.List)
		case *ast.Group:
			return hasHeredocCmds(e.List)
		case *ast.ForClause:
			return hasHeredocCmds(e.List)
		case *ast.WhileClause:
			return hasHeredocCmds(e.Cond) || hasHeredocCmds(e.List)
		case *ast.UntilClause:
			return hasHeredocCmds(e.Cond) || hasHeredocCmds(e.List)
		case *ast.IfClause:
			if hasHeredocCmds(e.Cond) || hasHeredocCmds(e.List) {
				return true
			}
			for _, ep := range e.Else {
				switch ep := ep.(type) {
				case *ast.ElifClause:
					if hasHeredocCmds(ep.Cond) || hasHeredocCmds(ep.List) {
						return true
					}
				case *ast.ElseClause:
					if hasHeredocCmds(ep.List) {
						return true
					}
				}
			}
		case *ast.CaseClause:
			for _, it := range e.Items {
				if hasHeredocCmds(it.List) {
					return true
				}
			}
		case *ast.FuncDef:
			if e.Body != nil {
				return hasHeredoc(e.Body)
			}
		}
	}
	return false
}

// CheckPositions checks every position of the trees against the source.
func CheckPositions(src string, cmds []ast.Command, comments []*ast.Comment) PosResult {
	c := &pchecker{s: newSource(src)}
	for i, cm := range cmds {
		c.command(fmt.Sprintf("cmd[%d]", i), cm)
	}
	var prev ast.Pos
	for i, cm := range comments {
		c.spell(fmt.Sprintf("comment[%d].Hash", i), cm.Hash, "#"+cm.Text)
		if i > 0 && !prev.Before(cm.Hash) {
			c.errf("comment[%d]: at %s, not after the previous comment at %s", i, ps(cm.Hash), ps(prev))
		}
		prev = cm.Hash
		// End() is pinned to leave out the "#" (the property excludes it);
		// still it is a position on the comment's own line, in characters
		if e := cm.End(); e.Before(cm.Hash) || !c.s.inside(e) {
			c.errf("comment[%d]: End() %s is not a position of the comment at %s (text %q)", i, ps(e), ps(cm.Hash), clip(cm.Text))
		}
	}
	return PosResult{Errs: c.errs, Fields: c.n}
}
