package oracle

import (
	"fmt"
	"reflect"
	"strings"
)

// Snapshot renders a value deeply (following pointers, interfaces, slices
// and unexported fields) so that two snapshots are equal exactly when the
// values are observably equal. Used to show that Fprint/Expand leave the
// tree they are given untouched.
func Snapshot(v any) string {
	var b strings.Builder
	snap(&b, reflect.ValueOf(v), 0)
	return b.String()
}

func snap(b *strings.Builder, v reflect.Value, depth int) {
	if depth > 200 {
		b.WriteString("<deep>")
		return
	}
	if !v.IsValid() {
		b.WriteString("<invalid>")
		return
	}
	switch v.Kind() {
	case reflect.Ptr:
		if v.IsNil() {
			b.WriteString("nil")
			return
		}
		b.WriteString("&")
		snap(b, v.Elem(), depth+1)
	case reflect.Interface:
		if v.IsNil() {
			b.WriteString("nil")
			return
		}
		snap(b, v.Elem(), depth+1)
	case reflect.Struct:
		b.WriteString(v.Type().Name())
		b.WriteString("{")
		for i := 0; i < v.NumField(); i++ {
			if i > 0 {
				b.WriteString(",")
			}
			b.WriteString(v.Type().Field(i).Name)
			b.WriteString(":")
			snap(b, v.Field(i), depth+1)
		}
		b.WriteString("}")
	case reflect.Slice:
		if v.IsNil() {
			b.WriteString("nil[]")
			return
		}
		fmt.Fprintf(b, "%s[", v.Type().String())
		for i := 0; i < v.Len(); i++ {
			if i > 0 {
				b.WriteString(",")
			}
			snap(b, v.Index(i), depth+1)
		}
		b.WriteString("]")
	case reflect.Map:
		// maps do not occur in the AST; keys are printed in sorted order
		keys := v.MapKeys()
		strs := make([]string, len(keys))
		for i, k := range keys {
			var kb, vb strings.Builder
			snap(&kb, k, depth+1)
			snap(&vb, v.MapIndex(k), depth+1)
			strs[i] = kb.String() + "=>" + vb.String()
		}
		sortStrings(strs)
		b.WriteString("map[" + strings.Join(strs, ",") + "]")
	case reflect.String:
		fmt.Fprintf(b, "%q", v.String())
	case reflect.Int, reflect.Int8, reflect.Int16, reflect.Int32, reflect.Int64:
		fmt.Fprintf(b, "%d", v.Int())
	case reflect.Uint, reflect.Uint8, reflect.Uint16, reflect.Uint32, reflect.Uint64, reflect.Uintptr:
		fmt.Fprintf(b, "%d", v.Uint())
	case reflect.Bool:
		fmt.Fprintf(b, "%v", v.Bool())
	default:
		fmt.Fprintf(b, "<%s>", v.Kind())
	}
}

func sortStrings(s []string) {
	for i := 1; i < len(s); i++ {
		for j := i; j > 0 && s[j] < s[j-1]; j-- {
			s[j], s[j-1] = s[j-1], s[j]
		}
	}
}
