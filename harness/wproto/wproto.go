// Package wproto is the request/response protocol between the test process
// and the isolated worker (cmd/worker), and the client side of it.
package wproto

import (
	"bufio"
	"encoding/hex"
	"encoding/json"
	"fmt"
	"io"
	"os"
	"os/exec"
	"strings"
	"sync"
	"time"
	"unicode/utf8"
)

// Req is one request. Op selects the entry points to exercise.
type Req struct {
	Op      string            `json:"op"`              // parse | downstream | eval | match | glob | option
	Src     string            `json:"src,omitempty"`   // source text / expression / subject
	Kind    string            `json:"kind,omitempty"`  // string | bytes | reader | scanner
	Cmd     bool              `json:"cmd,omitempty"`   // ParseCommand instead of ParseCommands
	Again   bool              `json:"again,omitempty"` // call ParseCommands a second time on the same source object
	Env     string            `json:"env,omitempty"`   // "" = nil env, "empty", "aliases"
	Aliases map[string]string `json:"aliases,omitempty"`
	Pats    []string          `json:"pats,omitempty"`
	Mode    uint              `json:"mode,omitempty"`
	Lo      uint              `json:"lo,omitempty"`
	Hi      uint              `json:"hi,omitempty"`
	Dir     string            `json:"dir,omitempty"` // scratch working directory for expansions
	// Head, Unit, N: for large flat inputs the source text is Head + N times Unit + Src
	Head  string `json:"head,omitempty"`
	Unit  string `json:"unit,omitempty"`
	N     int    `json:"n,omitempty"`
	Width uint   `json:"width,omitempty"` // selects the indentation width of the space-indenting configurations (see config in cmd/worker)
}

// JSON cannot carry strings that are not valid UTF-8 (encoding/json replaces
// the offending bytes): such a source or pattern travels, and is recorded in
// replay files, as hexadecimal in src_hex / pats_hex instead.
type reqPlain Req

type reqWire struct {
	reqPlain
	SrcHex  string   `json:"src_hex,omitempty"`
	PatsHex []string `json:"pats_hex,omitempty"`
}

func (r Req) MarshalJSON() ([]byte, error) {
	w := reqWire{reqPlain: reqPlain(r)}
	if !utf8.ValidString(r.Src) {
		w.SrcHex, w.Src = hex.EncodeToString([]byte(r.Src)), ""
	}
	for _, p := range r.Pats {
		if !utf8.ValidString(p) {
			w.Pats = nil
			for _, q := range r.Pats {
				w.PatsHex = append(w.PatsHex, hex.EncodeToString([]byte(q)))
			}
			break
		}
	}
	return json.Marshal(w)
}

func (r *Req) UnmarshalJSON(b []byte) error {
	var w reqWire
	if err := json.Unmarshal(b, &w); err != nil {
		return err
	}
	*r = Req(w.reqPlain)
	if w.SrcHex != "" {
		x, err := hex.DecodeString(w.SrcHex)
		if err != nil {
			return err
		}
		r.Src = string(x)
	}
	if w.PatsHex != nil {
		r.Pats = nil
		for _, h := range w.PatsHex {
			x, err := hex.DecodeString(h)
			if err != nil {
				return err
			}
			r.Pats = append(r.Pats, string(x))
		}
	}
	return nil
}

// Resp is the answer.
type Resp struct {
	OK     bool   `json:"ok"`
	Panic  string `json:"panic,omitempty"` // a panic recovered in the calling goroutine
	Err    string `json:"err,omitempty"`   // error returned by the entry point
	ErrTyp string `json:"errtype,omitempty"`
	NCmds  int    `json:"ncmds,omitempty"`
	Count  int    `json:"count,omitempty"` // entry-point calls made
	Note   string `json:"note,omitempty"`
}

// Client owns one worker process.
type Client struct {
	bin    string
	env    []string
	cmd    *exec.Cmd
	in     io.WriteCloser
	out    *bufio.Reader
	stderr *tail
	mu     sync.Mutex
}

type tail struct {
	mu sync.Mutex
	b  []byte
}

func (t *tail) Write(p []byte) (int, error) {
	t.mu.Lock()
	t.b = append(t.b, p...)
	if len(t.b) > 4000 {
		t.b = t.b[len(t.b)-4000:]
	}
	t.mu.Unlock()
	return len(p), nil
}

func (t *tail) String() string {
	t.mu.Lock()
	defer t.mu.Unlock()
	return string(t.b)
}

// NewClient prepares a client; the worker is started lazily. env entries
// (e.g. "GODEBUG=panicnil=1") are added to the process environment.
func NewClient(bin string, env ...string) *Client { return &Client{bin: bin, env: env} }

func (c *Client) start() error {
	cmd := exec.Command(c.bin)
	cmd.Env = append(os.Environ(), c.env...)
	in, err := cmd.StdinPipe()
	if err != nil {
		return err
	}
	out, err := cmd.StdoutPipe()
	if err != nil {
		return err
	}
	c.stderr = &tail{}
	cmd.Stderr = c.stderr
	if err := cmd.Start(); err != nil {
		return err
	}
	c.cmd, c.in, c.out = cmd, in, bufio.NewReaderSize(out, 1<<16)
	return nil
}

// Stop kills the worker.
func (c *Client) Stop() {
	if c.cmd != nil {
		c.in.Close()
		c.cmd.Process.Kill()
		c.cmd.Wait()
		c.cmd = nil
	}
}

// Outcome of a request.
type Outcome struct {
	Resp    Resp
	Died    bool   // the worker process died while handling the request
	Timeout bool   // no answer within the deadline
	Detail  string // exit status and stderr tail
	Infra   error  // the worker could not be started / spoken to at all
}

// Do sends one request and waits for the answer.
func (c *Client) Do(r Req, deadline time.Duration) Outcome {
	c.mu.Lock()
	defer c.mu.Unlock()
	if c.cmd == nil {
		if err := c.start(); err != nil {
			return Outcome{Infra: fmt.Errorf("cannot start worker %s: %v", c.bin, err)}
		}
	}
	b, _ := json.Marshal(r)
	b = append(b, '\n')
	if _, err := c.in.Write(b); err != nil {
		det := c.reap()
		return Outcome{Died: true, Detail: "write: " + err.Error() + "; " + det}
	}
	type line struct {
		s   string
		err error
	}
	ch := make(chan line, 1)
	go func() {
		s, err := c.out.ReadString('\n')
		ch <- line{s, err}
	}()
	select {
	case l := <-ch:
		if l.err != nil {
			det := c.reap()
			return Outcome{Died: true, Detail: det}
		}
		var resp Resp
		if err := json.Unmarshal([]byte(l.s), &resp); err != nil {
			c.Stop()
			return Outcome{Infra: fmt.Errorf("bad answer from worker: %q", l.s)}
		}
		return Outcome{Resp: resp}
	case <-time.After(deadline):
		c.Stop()
		return Outcome{Timeout: true, Detail: "no answer within " + deadline.String()}
	}
}

func (c *Client) reap() string {
	det := ""
	if c.cmd != nil {
		c.in.Close()
		done := make(chan error, 1)
		go func() { done <- c.cmd.Wait() }()
		select {
		case err := <-done:
			det = fmt.Sprint(err)
		case <-time.After(2 * time.Second):
			c.cmd.Process.Kill()
			det = "killed"
		}
		st := c.stderr.String()
		if i := strings.Index(st, "goroutine "); i > 0 && i < len(st) {
			// keep the panic message and the first frames
			if len(st) > 1200 {
				st = st[:1200]
			}
		}
		det += "; stderr: " + st
		c.cmd = nil
	}
	return det
}
